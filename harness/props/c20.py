"""C20: same configuration and seed give the same game and the same configuration hash.

Identical probe sessions (two agents, several episodes with resets, static and dynamic addresses, all
playable shipped scenarios, several seeds) are played in SEPARATE interpreter processes with different
PYTHONHASHSEED values; decoded transcripts, published address maps and configuration hashes must be
identical across processes, and hashes must differ between scenarios."""
import json
import os
import subprocess
import sys
from concurrent.futures import ThreadPoolExecutor

import check as CK

TRANSLATORS = ["codec", "enums", "defender"]
COQ_FILES = ["Props/C20.v", "Props/C20_coord.v"]
SCENARIOS = ["scenario1_small", "scenario1", "three_nets"]


def run_worker(args):
    scenario, dynamic, seed, episodes, hashseed = args[:5]
    defender = args[5] if len(args) > 5 else False
    env = dict(os.environ, PYTHONHASHSEED=str(hashseed), PYTHONPATH=f"{CK.HARNESS}/pyshim:{CK.REPO}:{CK.HARNESS}")
    r = subprocess.run([CK.PY, os.path.join(CK.HARNESS, "c20_worker.py"), scenario, "1" if dynamic else "0", str(seed), str(episodes), "1" if defender else "0"],
                       capture_output=True, text=True, env=env, timeout=900)
    if r.returncode != 0:
        return args, None, (r.stderr or r.stdout)[-600:]
    try:
        return args, json.loads(r.stdout.strip().splitlines()[-1]), None
    except Exception as e:
        return args, None, f"unparsable worker output: {e}: {r.stdout[-300:]}"


def coordinator_sessions(ctx):
    """Ties the coordinator model (over which C20_peer_addresses is stated) to coordinator.py - the trace-following
    correspondence on directed and random sessions - and plays every session a second time with all peer addresses renamed
    (one-to-one, order reversed): the real coordinator must answer every connection exactly as before."""
    from props import coordcommon as CC
    n = 120 if ctx.tier == "thorough" else 54
    CC.run_sessions(ctx, "C20", n, lambda rng: dict(n_events=rng.choice([30, 60]), burst=0.3, fault=0.1, bad=0.1, resets=0.2),
                    lambda rng: dict(required=rng.choice([1, 2, 2, 3]), max_steps=rng.choice([1, 2, 3])), rename=True)
    sub = dict(ctx.coverage)
    ctx.coverage.clear()
    ctx.coverage["coordinator_sessions"] = sub


def correspondence(ctx):
    th = ctx.tier == "thorough"
    coordinator_sessions(ctx)
    hashseeds = [0, 1, 2, 3, 4, 5] if not th else list(range(16))
    seeds = [42, 0] if not th else [42, 0, 7, 1234]        # 0 is a seed like any other
    episodes = 3 if not th else 5
    jobs = []
    for sc in SCENARIOS:
        for dyn in (False, True):
            for seed in seeds:
                for hs in hashseeds:
                    jobs.append((sc, dyn, seed, episodes, hs, False))
    # the global defender switched on (its detection draws are part of the game): one scenario, static and dynamic
    for dyn in (False, True):
        for seed in seeds:
            for hs in hashseeds[:3] if not th else hashseeds[:6]:
                jobs.append(("scenario1_small", dyn, seed, episodes, hs, True))
    with ThreadPoolExecutor(max_workers=12) as ex:
        results = list(ex.map(run_worker, jobs))
    groups = {}
    hashes = {}
    responses = 0
    for args, out, err in results:
        sc, dyn, seed, ep, hs, gdf = args
        if out is None:
            ctx.stage_errors.append((f"worker {args}", err))
            continue
        if out["errors"]:
            ctx.violations.append({"key": "task error", "what": f"a coordinator task raised during the probe session, or a join the configuration allows was refused: {out['errors'][:1]}",
                                   "replay": {"kind": "worker", "args": list(args)}})
        if out.get("second_run_equal") is False:
            ctx.violations.append({"key": f"a second game in the same process differs ({'dynamic' if dyn else 'static'} addresses)",
                                   "what": f"scenario {sc}, seed {seed}: two coordinators started one after the other in ONE process on the same configuration file and fed the same messages answered differently; first difference {str(out.get('second_run_first_difference'))[:400]}",
                                   "replay": {"kind": "worker_pair", "scenario": sc, "dynamic": dyn, "seed": seed, "defender": gdf, "hashseeds": [hs, hs], "episodes": ep}})
        ctx.coverage["same_process_second_runs"] = ctx.coverage.get("same_process_second_runs", 0) + 1
        groups.setdefault((sc, dyn, seed, gdf), []).append((hs, out))
        if not gdf:
            hashes.setdefault(sc, set()).add(out["hash"])
        else:
            ends = [t[1].get("observation", {}).get("info", {}).get("end_reason") for t in out["transcript"] if isinstance(t[1], dict) and t[1].get("observation")]
            ctx.coverage.setdefault("defender_runs_detections", []).append(sum(1 for e in ends if e and "Fail" in str(e)))
        responses += len(out["transcript"])
    for key, runs in groups.items():
        ref_hs, ref = runs[0]
        for hs, out in runs[1:]:
            if out["hash"] != ref["hash"]:
                ctx.violations.append({"key": "configuration hash differs between runs",
                                       "what": f"the same configuration announced different hashes in two processes ({ref['hash'][:12]} vs {out['hash'][:12]})",
                                       "replay": {"kind": "worker_pair", "a": [*key, len(ref['transcript']), ref_hs], "b": [*key, 0, hs]}})
            if out["transcript"] != ref["transcript"] or out["ip_mapping"] != ref["ip_mapping"]:
                first = next((i for i, (x, y) in enumerate(zip(ref["transcript"], out["transcript"])) if x != y), None)
                ctx.violations.append({"key": f"transcripts differ across hash seeds ({'dynamic' if key[1] else 'static'} addresses)",
                                       "what": f"scenario {key[0]}, seed {key[2]}: the response sequences of two processes (PYTHONHASHSEED {ref_hs} and {hs}) differ, first at response {first}",
                                       "replay": {"kind": "worker_pair", "scenario": key[0], "dynamic": key[1], "seed": key[2], "defender": key[3], "hashseeds": [ref_hs, hs], "episodes": episodes}})
    allh = [h for hs in hashes.values() for h in hs]
    if len(set(allh)) < len([s for s in hashes if hashes[s]]):
        ctx.violations.append({"key": "hash collision between scenarios", "what": "two different scenarios announce the same configuration hash",
                               "replay": {"kind": "hashes", "hashes": {k: sorted(v) for k, v in hashes.items()}}})
    ctx.coverage.update({
        "evaluations": len(jobs),
        "distinct_nontrivial": len(groups) * len(hashseeds),
        "rule": "one probe session (three attackers with a random start host each and one defender, several episodes ended by resets, random start host, ScanNetwork/FindServices/ExploitService/FindData/BlockIP chosen deterministically from the current view) per (shipped scenario x static/dynamic addresses x seed), each played in separate interpreter processes with different PYTHONHASHSEED; all processes of a group must produce identical decoded transcripts, address maps and hashes; distinct = process runs",
        "groups": len(groups), "hash_seeds": hashseeds, "responses_compared": responses,
        "samples": [{"scenario": k[0], "dynamic": k[1], "seed": k[2], "hash": v[0][1]["hash"][:16], "responses": len(v[0][1]["transcript"])} for k, v in list(groups.items())[:3]],
    })
    ctx.assumptions += [
        "independence of process, hash randomisation and wall-clock time is a runtime property: decided by the cross-process runs (partial: not a theorem)",
        "transcripts are compared as decoded values with sets canonicalised; C20_order_* show that decoding does not depend on the order in which sets were written",
        "SHA-256 is opaque: 'differs for different scenarios' is observed on the shipped scenarios only",
    ]


def replay(ctx, payload):
    if str(payload.get("kind", "")).startswith("coordinator_session"):
        from props import coordcommon as CC
        return CC.replay_session(ctx, "C20", payload)
    print(json.dumps(payload, indent=1)[:3000])
    if payload.get("kind") == "worker_pair" and "hashseeds" in payload:
        runs = [run_worker((payload["scenario"], payload["dynamic"], payload["seed"], payload.get("episodes", 3), hs, payload.get("defender", False))) for hs in payload["hashseeds"]]
        outs = [o for _, o, _ in runs]
        if any(o is None for o in outs):
            print("a worker failed:", [e for _, _, e in runs])
            return 1
        same = outs[0]["transcript"] == outs[1]["transcript"] and outs[0]["hash"] == outs[1]["hash"] and outs[0]["ip_mapping"] == outs[1]["ip_mapping"]
        for o in outs:
            if o.get("second_run_equal") is False:
                print("a second coordinator in the same process answered differently; first difference:", str(o.get("second_run_first_difference"))[:600])
                same = False
        print("the two processes produced", "identical" if same else "DIFFERENT", "transcripts / hashes / address maps")
        if not same:
            print("VIOLATION property=C20 replay=(this file)")
        return 0 if same else 1
    return 0
