"""coordinator.py dispatcher and connection-handler shapes -> coq/Gen/Dispatch.v (fail closed).

What is read: the arms of `match action.type` in run_game (which handler each action type is
routed to, what the default arm does), what happens when Action.from_json raises, and the
exception paths of AgentServer.handle_new_agent."""
import ast
from common import parse, write_if_changed, TranslationError, find_class, find_func, ATYPES


def coq_str(s):
    return '"' + s.replace('"', '""') + '"'


def read():
    src, tree = parse("AIDojoCoordinator/coordinator.py")
    gc = find_class(tree, "GameCoordinator")
    rg = find_func(gc, "run_game")
    out = {}
    m = [n for n in ast.walk(rg) if isinstance(n, ast.Match)]
    if len(m) != 1 or ast.unparse(m[0].subject) != "action.type":
        raise TranslationError("run_game: expected exactly one `match action.type`")
    arms = []
    default = None
    for case in m[0].cases:
        pat = case.pattern
        if isinstance(pat, ast.MatchOr):
            pats = pat.patterns
        else:
            pats = [pat]
        if len(pats) == 1 and isinstance(pats[0], ast.MatchAs) and pats[0].pattern is None:
            calls = [ast.unparse(n.func) for n in ast.walk(ast.Module(body=case.body, type_ignores=[])) if isinstance(n, ast.Call)]
            if "self._spawn_task" in calls:
                raise TranslationError("run_game: the default arm spawns a task")
            default = "reply_bad_request" if "self._respond_bad_request" in calls else "drop"
            continue
        names = []
        for p in pats:
            if not (isinstance(p, ast.MatchValue) and isinstance(p.value, ast.Attribute) and ast.unparse(p.value.value) == "ActionType"):
                raise TranslationError("run_game: case pattern is not ActionType.<member>")
            names.append(p.value.attr)
        spawned = [n for n in ast.walk(ast.Module(body=case.body, type_ignores=[])) if isinstance(n, ast.Call) and ast.unparse(n.func) == "self._spawn_task"]
        if len(spawned) != 1:
            raise TranslationError(f"run_game: arm {names} does not spawn exactly one task")
        handler = ast.unparse(spawned[0].args[0])
        passes_action = any(ast.unparse(a) == "action" for a in spawned[0].args[1:])
        passes_addr = any(ast.unparse(a) == "agent_addr" for a in spawned[0].args[1:])
        for nm in names:
            arms.append((nm, handler, passes_addr, passes_action))
    out["arms"] = arms
    out["default"] = default
    # the parse-failure path: try: action = Action.from_json(message) except Exception: ... respond; continue
    tries = [n for n in ast.walk(rg) if isinstance(n, ast.Try)]
    if len(tries) != 1:
        raise TranslationError("run_game: expected exactly one try statement")
    t = tries[0]
    if not any("Action.from_json(message)" in ast.unparse(s) for s in t.body):
        raise TranslationError("run_game: the try block does not parse the message")
    if len(t.handlers) != 1 or ast.unparse(t.handlers[0].type) != "Exception":
        raise TranslationError("run_game: parse errors are not caught by `except Exception`")
    hb = t.handlers[0].body
    responds = any(isinstance(n, ast.Call) and ast.unparse(n.func) == "self._respond_bad_request" for s in hb for n in ast.walk(s))
    continues = isinstance(hb[-1], ast.Continue)
    out["parse_failure"] = ("reply_bad_request" if responds else "silent") + ("_and_continue" if continues else "_and_fall_through")
    # nothing that can raise stands between the guarded parse and the dispatch: the statement after the try is the match
    def body_with(node, target):
        for n in ast.walk(node):
            for field in ("body", "orelse", "finalbody"):
                b = getattr(n, field, None)
                if isinstance(b, list) and target in b:
                    return b
        return None
    blk = body_with(rg, t)
    if blk is None or m[0] not in blk:
        out["after_parse"] = "match_not_beside_try"
    else:
        between = blk[blk.index(t) + 1:blk.index(m[0])]
        out["after_parse"] = "match_follows_try" if not between else "statements_between:" + ";".join(type(x).__name__ for x in between)
    # the parameter table of _validate_game_action and the shape of its checks
    vg = find_func(gc, "_validate_game_action")
    tables = [n for n in ast.walk(vg) if isinstance(n, ast.Assign) and ast.unparse(n.targets[0]) == "required_parameters"]
    if len(tables) != 1 or not isinstance(tables[0].value, ast.Dict):
        raise TranslationError("_validate_game_action: expected one dictionary literal `required_parameters`")
    req = []
    for k, v in zip(tables[0].value.keys, tables[0].value.values):
        if not (isinstance(k, ast.Attribute) and ast.unparse(k.value) == "ActionType" and isinstance(v, ast.Dict)):
            raise TranslationError("_validate_game_action: table entry is not ActionType.<member>: {...}")
        ps = []
        for pk, pv in zip(v.keys, v.values):
            if not (isinstance(pk, ast.Constant) and isinstance(pk.value, str) and isinstance(pv, ast.Name)):
                raise TranslationError("_validate_game_action: parameter entry is not '<name>': <Type>")
            ps.append((pk.value, pv.id))
        req.append((k.attr, ps))
    out["required"] = req
    fors = [n for n in vg.body if isinstance(n, ast.For)]
    shape = []
    if len(fors) == 1 and ast.unparse(fors[0].iter) == "required_parameters[action.type].items()":
        ftxt = ast.unparse(fors[0])
        if "if not isinstance(action.parameters.get(name), expected_type):" in ftxt:
            shape.append("isinstance_of_get")
        if "hash(action.parameters[name])" in ftxt and "except TypeError" in ftxt:
            shape.append("hashable")
        rets = [n for n in ast.walk(fors[0]) if isinstance(n, ast.Return)]
        if rets and all(r.value is not None and not (isinstance(r.value, ast.Constant) and r.value.value is None) for r in rets):
            shape.append("returns_reason")
    if isinstance(vg.body[-1], ast.Return) and isinstance(vg.body[-1].value, ast.Constant) and vg.body[-1].value.value is None:
        shape.append("none_when_valid")
    out["validation_shape"] = "_".join(shape) or "unknown"
    # _process_game_action: membership, then validation, then (only then) anything that counts or plays the action
    pg = find_func(gc, "_process_game_action")
    idx = {"member": None, "validate": None, "refuse": None, "effect": None}
    for i, st in enumerate(pg.body):
        txt = ast.unparse(st)
        if idx["member"] is None and "agent_addr not in self.agents" in txt and "_respond_bad_request" in txt and "return" in txt:
            idx["member"] = i
        if idx["validate"] is None and "self._validate_game_action(action)" in txt:
            idx["validate"] = i
        if idx["refuse"] is None and idx["validate"] is not None and i > idx["validate"] and "_respond_bad_request" in txt and "return" in txt:
            idx["refuse"] = i
        if idx["effect"] is None and ("self._agent_steps" in txt or "self.step(" in txt or "_agent_last_action" in txt or "_agent_states[" in txt):
            idx["effect"] = i
    ok = (None not in idx.values()) and idx["member"] < idx["validate"] < idx["refuse"] < idx["effect"]
    out["validation_order"] = "member_validate_refuse_then_effects" if ok else "unknown:" + ",".join(f"{k}={v}" for k, v in idx.items())
    # time: the coordinator may only sleep in its two idle heart-beat loops; no time-outs, no timers anywhere else
    timed = []
    for n in ast.walk(tree):
        if isinstance(n, ast.Call):
            f = ast.unparse(n.func)
            if f in ("asyncio.sleep", "asyncio.wait_for", "asyncio.timeout", "asyncio.timeout_at", "asyncio.to_thread") or f.endswith(".run_in_executor") or f.endswith(".call_later") or f.endswith(".call_at") or f.startswith("time."):
                timed.append(f + "(" + ", ".join(ast.unparse(a) for a in n.args) + ")")
            elif any(k.arg == "timeout" for k in n.keywords):
                timed.append(f + "(timeout=...)")
    out["time_dependence"] = "two_heartbeat_sleeps" if sorted(timed) == ["asyncio.sleep(1)", "asyncio.sleep(1)"] else "other:" + ";".join(sorted(timed))[:200]
    # _respond_bad_request must put a BAD_REQUEST message on the sender's queue
    rb = find_func(gc, "_respond_bad_request")
    txt = ast.unparse(rb)
    if "GameStatus.BAD_REQUEST" not in txt or "self._agent_response_queues[agent_addr].put" not in txt:
        raise TranslationError("_respond_bad_request does not put a BAD_REQUEST reply on the sender's queue")
    # connection handler: abnormal exits forward QuitGame
    srv = find_class(tree, "AgentServer")
    h = find_func(srv, "handle_new_agent")
    tr = [n for n in h.body if isinstance(n, ast.Try)]
    if len(tr) != 1:
        raise TranslationError("handle_new_agent: expected one try statement")
    exc = {ast.unparse(x.type): x for x in tr[0].handlers}
    if "Exception" not in exc:
        out["conn_failure"] = "not_forwarded"
    else:
        b = ast.unparse(ast.Module(body=exc["Exception"].body, type_ignores=[]))
        out["conn_failure"] = "forward_quit" if ("ActionType.QuitGame" in b and "self.actions_queue.put" in b) else "not_forwarded"
    fin = ast.unparse(ast.Module(body=tr[0].finalbody, type_ignores=[]))
    out["conn_cleanup"] = ("decrement" if "self.current_connections -= 1" in fin else "no_decrement") + \
                          ("_pop_queue" if "self.answers_queues.pop(addr)" in fin else "") + ("_close" if "writer.close()" in fin else "")
    adm = ast.unparse(h)
    out["admission"] = "reject_at_limit" if "if self.current_connections >= self.max_connections:" in adm else "unknown"
    ss = find_func(gc, "start_tcp_server")
    out["limit"] = "required_players" if "max_connections=self._min_required_players" in ast.unparse(ss) else "unknown"
    return out


def emit(d):
    L = ["(* GENERATED from AIDojoCoordinator/coordinator.py by harness/translate/dispatch.py; do not edit *)",
         "From Coq Require Import String List.", "From NSG Require Import Base.Prelude.", "Import ListNotations.", "Open Scope string_scope.", ""]
    L.append("Definition gen_dispatch_arms : list (atype * string * bool * bool) := [" +
             "; ".join(f"({n}, {coq_str(h)}, {'true' if a else 'false'}, {'true' if b else 'false'})" for n, h, a, b in d["arms"]) + "].")
    L.append("Definition gen_required_params : list (atype * list (string * string)) := [" +
             "; ".join(f"({t}, [" + "; ".join(f"({coq_str(a)}, {coq_str(b)})" for a, b in ps) + "])" for t, ps in d["required"]) + "].")
    for k in ("default", "parse_failure", "after_parse", "validation_shape", "validation_order", "time_dependence", "conn_failure", "conn_cleanup", "admission", "limit"):
        L.append(f"Definition gen_{k} : string := {coq_str(d[k])}.")
    L.append("")
    return "\n".join(L)


def main():
    d = read()
    write_if_changed("Dispatch.v", emit(d))
    return d


if __name__ == "__main__":
    import pprint
    pprint.pprint(main())
