"""Runs walks on the real world (NSGCoordinator started by the real start_tasks) and records
ops for the Coq model, the Python reference's expectations and invariants' raw material."""
import copy
import random as _random

import nsgenv
from worldlib import *


def start_world(cfg, objs=None, seed=42):
    """Start the real coordinator; with objs, the scenario objects replace the shipped one."""
    from AIDojoCoordinator.utils.utils import ConfigParser
    if objs is not None:
        orig = ConfigParser.get_scenario
        ConfigParser.get_scenario = lambda self: objs
    try:
        drv = nsgenv.start(cfg, seed=seed)
    finally:
        if objs is not None:
            ConfigParser.get_scenario = orig
    g = drv.g
    if drv.task_errors:
        raise RuntimeError(f"coordinator failed to start: {drv.task_errors}")
    g._initialize()
    return drv


def start_pos_dict(sp):
    from AIDojoCoordinator.game_components import IP, Network, Service, Data
    ctrl = []
    for h in sp["ctrl"]:
        ctrl.append(h if isinstance(h, str) else IP(n2ip(h)))
    return {"known_networks": {Network(n2ip(a), m) for a, m in sp["nets"]},
            "controlled_hosts": ctrl, "known_hosts": {IP(n2ip(h)) for h in sp["hosts"]},
            "known_data": {IP(n2ip(h)): {Data(*d) for d in ds} for h, ds in sp.get("data", {}).items()},
            "known_services": {IP(n2ip(h)): {Service(*x) for x in ss} for h, ss in sp.get("svcs", {}).items()}}


def start_pos_term(sp, I=None):
    def h(x):
        return "SRandom" if x == "random" else ("SAllLocal" if x == "all_local" else f"(SHost {x}%N)")
    svcs = "; ".join(f"({k}%N, [{'; '.join(svc_term(x, I) for x in sorted(v))}])" for k, v in sorted(sp.get("svcs", {}).items()))
    data = "; ".join(f"({k}%N, [{'; '.join(data_term(x, I) for x in sorted(v))}])" for k, v in sorted(sp.get("data", {}).items()))
    return ("{| sp_nets := [%s]; sp_hosts := [%s]; sp_ctrl := [%s]; sp_svcs := [%s]; sp_data := [%s] |}" %
            ("; ".join(f"({a}%N, {m}%N)" for a, m in sp["nets"]), "; ".join(f"{x}%N" for x in sp["hosts"]),
             "; ".join(h(x) for x in sp["ctrl"]), svcs, data))


class Recorder:
    """Wraps random.choice while an initial view is built, so the model receives the picks."""

    def __enter__(self):
        self.picks = []
        self.orig = _random.choice

        def choice(seq):
            r = self.orig(seq)
            self.picks.append(r)
            return r
        _random.choice = choice
        return self

    def __exit__(self, *a):
        _random.choice = self.orig


def gen_action(rng, T, v, bias_valid=0.75, types=None):
    """An action for an agent with view v on a world with tables T."""
    all_ips = sorted(T["ip2host"])
    bogus_ip = lambda: rng.choice([ip2n("1.1.1.1"), ip2n("192.168.77.7"), ip2n("10.255.0.9")])
    ctrl = sorted(v["ctrl"])
    hosts = sorted(v["hosts"])
    t = rng.choice(types or ["ScanNetwork", "FindServices", "FindData", "ExploitService", "ExfiltrateData", "BlockIP"])
    ok = rng.random() < bias_valid
    pick = lambda good, alt: (rng.choice(good) if good and (ok or rng.random() < 0.5) else alt())
    any_ip = lambda: rng.choice(all_ips + [bogus_ip()]) if all_ips else bogus_ip()
    src = pick(ctrl, any_ip)
    a = {"type": t, "src": src}
    if t == "ScanNetwork":
        nets = sorted(T["nets"])
        c = rng.random()
        if c < 0.7 and nets:
            a["net"] = rng.choice(nets)
        elif c < 0.9 and all_ips:
            # networks written with a host's own address: one address (/32), the host as first or LAST address of a small block, wide masks
            a["net"] = (rng.choice(all_ips), rng.choice([32, 32, 31, 30, 29, 28, 25, 16, 8, 0]))
        else:
            a["net"] = (ip2n("172.20.0.0"), 16)
        return a
    reach = sorted(T["fw"].get(src, set()))
    if t == "FindServices":
        a["tgt"] = pick(sorted(set(hosts) | set(reach)), any_ip)
    elif t == "FindData":
        c = rng.random()
        interesting = sorted(set(T["blocks"]) | {i for i in all_ips if T["data"].get(T["ip2host"][i])})
        if c < 0.4 or not reach:
            a["tgt"] = pick(ctrl, any_ip)
        elif c < 0.7 and interesting:
            a["tgt"] = rng.choice(interesting)          # hosts with blocks or data, controlled or not
        else:
            a["tgt"] = rng.choice(reach)                # reachable, controlled or not
    elif t == "ExploitService":
        cands = [(h, s) for h, ss in sorted(v["svcs"].items()) for s in sorted(ss)]
        if cands and ok:
            a["tgt"], a["svc"] = rng.choice(cands)
        else:
            a["tgt"] = any_ip()
            node = T["ip2host"].get(a["tgt"])
            pool = sorted(T["services"].get(node, set())) + [("bogus", "passive", "0", False)]
            a["svc"] = rng.choice(pool)
    elif t == "ExfiltrateData":
        cands = [(h, d) for h, ds in sorted(v["data"].items()) for d in sorted(ds) if h in v["ctrl"]]
        if cands and ok:
            a["src"], a["data"] = rng.choice(cands)
        else:
            pool = sorted(set().union(*T["data"].values())) if T["data"] else []
            a["data"] = rng.choice(pool + [("nobody", "nothing", 0, ""), ("User1", "DataFromServer1", 7, "x")])
        a["tgt"] = pick([c for c in ctrl if c != a["src"]] or ctrl, any_ip)
    elif t == "BlockIP":
        a["tgt"] = pick(ctrl, any_ip)
        a["blocked"] = rng.choice((all_ips or [bogus_ip()]) + [bogus_ip(), a["tgt"]])
    return a


def perturb_view(rng, T, v):
    """An arbitrary (not necessarily reachable) view near v."""
    v = copy.deepcopy(v)
    all_ips = sorted(T["ip2host"])
    for _ in range(rng.randrange(1, 4)):
        c = rng.randrange(8)
        if c == 0 and all_ips:
            v["ctrl"].add(rng.choice(all_ips))
        elif c == 1 and v["ctrl"]:
            v["ctrl"].discard(rng.choice(sorted(v["ctrl"])))
        elif c == 2 and all_ips:
            v["hosts"].add(rng.choice(all_ips))
        elif c == 3 and all_ips:
            h = rng.choice(all_ips)
            pool = sorted(T["services"].get(T["ip2host"][h], set())) + [("bogus", "passive", "0", False)]
            v["svcs"].setdefault(h, set()).add(rng.choice(pool))
        elif c == 4 and all_ips:
            h = rng.choice(all_ips)
            pool = sorted(set().union(*T["data"].values())) if T["data"] else []
            v["data"].setdefault(h, set()).add(rng.choice(pool + [("nobody", "nothing", 0, "")]))
        elif c == 5 and v["svcs"]:
            v["svcs"].pop(rng.choice(sorted(v["svcs"])))
        elif c == 6 and v["data"]:
            v["data"].pop(rng.choice(sorted(v["data"])))
        elif c == 7 and T["nets"]:
            v["nets"].add(rng.choice(sorted(T["nets"])))
    return v


def canon(x):
    """Order-independent canonical form of tables/views for comparison and reporting."""
    if isinstance(x, dict):
        return {str(k): canon(v) for k, v in sorted(x.items(), key=lambda kv: repr(kv[0]))}
    if isinstance(x, (set, frozenset)):
        return sorted((canon(i) for i in x), key=repr)
    if isinstance(x, (list, tuple)):
        return [canon(i) for i in x]
    return x


WORLD_KEYS = ["ip2host", "nets", "services", "data", "fw", "blocks", "data0", "fw0"]


def same_world(A, B, keys=WORLD_KEYS):
    def norm(m):
        # an absent key and a key bound to the empty set are different in the tables; keep as is
        return canon(m)
    return all(norm(A[k]) == norm(B[k]) for k in keys)


def same_view(a, b):
    return canon(a) == canon(b)
