"""Shared machinery of the world-level properties C02, C03, C08, C11, C12: walks on the real
world, the Python reference as monitor, and the trace fed to the Coq model (Model/World.v,
Model/Load.v) for the correspondence check."""
import copy
import json
import os
import random
import sys

import check as CK

SHIPPED = ["scenario1_small", "scenario1", "three_nets"]


def _imports():
    sys.path[:0] = [CK.HARNESS]
    import nsgenv
    import worldlib
    import worldrun
    return nsgenv, worldlib, worldrun


class Walk:
    """One world session: ops for the model, tags per op, monitor hits."""

    def __init__(self, name):
        self.name = name
        self.ops = []        # (coq term, tag, description)
        self.load_term = None
        self.hits = []       # (property, key, what, replay)
        self.stats = {}

    def count(self, k):
        self.stats[k] = self.stats.get(k, 0) + 1


def describe(a, WL):
    d = dict(a)
    for k in ("src", "tgt", "blocked"):
        if k in d:
            d[k] = WL.n2ip(d[k])
    if "net" in d:
        d["net"] = f"{WL.n2ip(d['net'][0])}/{d['net'][1]}"
    return d


def run_walk(rng, name, cfg, objs, focus, n_agents, n_steps, perturb, resets, seed=42, shared=False):
    nsgenv, WL, WR = _imports()
    I = WL.Interner()
    wk = Walk(name)
    drv = WR.start_world(cfg, objs, seed=seed)
    try:
        g = drv.g
        sc = WL.read_scenario(g._cyst_objects, cfg["env"].get("use_firewall", False))
        T0 = WL.impl_tables(g)
        Wref = WL.ref_load(sc)
        wk.sc_term = WL.scenario_term(sc, I)
        wk.w0_term = WL.world_term(T0, I)
        wk.start_term = "[" + "; ".join(f"{x}%N" for x in T0["start"]) + "]"
        if not WR.same_world(T0, Wref) or T0["start"] != Wref["start"]:
            diff = [k for k in WR.WORLD_KEYS if WR.canon(T0[k]) != WR.canon(Wref[k])]
            wk.hits.append(("C03", f"loader tables {diff}", f"the world tables built from the scenario differ from the scenario definition in {diff or 'start hosts'}",
                            {"kind": "load", "scenario": name, "tables": diff,
                             "implementation": {k: WR.canon(T0[k]) for k in diff}, "definition": {k: WR.canon(Wref[k]) for k in diff}}))
            if "fw" in diff:
                extra = sorted((WL.n2ip(a_), WL.n2ip(b_)) for a_, bs_ in T0["fw"].items() for b_ in bs_ if b_ not in Wref["fw"].get(a_, set()))[:3]
                if extra:
                    wk.hits.append(("C02", "firewall table allows what the scenario does not", f"the firewall table built from the scenario allows connections its definition does not (e.g. {extra}): every action over them takes effect although the firewall precondition does not hold",
                                    {"kind": "load", "scenario": name, "tables": ["fw"], "implementation": {"fw": WR.canon(T0["fw"])}, "definition": {"fw": WR.canon(Wref["fw"])}}))
            Wref = copy.deepcopy({k: T0[k] for k in T0})     # continue the walk on the implementation's tables
        # ---- agents
        from AIDojoCoordinator.game_components import IP
        all_ips = sorted(T0["ip2host"])
        nets = sorted(T0["nets"])
        agents = []
        history = []         # replay: list of ops as python data
        snapshots = []       # (agent, deep snapshot, live GameState object) of every returned view

        reset_sps = {}
        sp_tables = {}       # the coordinator keeps ONE start-position table per role for its whole life: so does the walk, per start position

        def sp_table(sp):
            k = id(sp)
            if k not in sp_tables:
                sp_tables[k] = (sp, WR.start_pos_dict(sp))
            cur = sp_tables[k][1]
            if cur != WR.start_pos_dict(sp):
                for hp in ("C08", "C02", "C03", "C12"):
                    wk.hits.append((hp, "the start position table was modified by play", "the start position handed to the world for every join and reset of this role is no longer what was configured: an action wrote into it (later initial views will differ)",
                                    {"kind": "walk", "scenario": name, "history": list(history), "start_position": sp}))
                sp_tables[k] = (sp, WR.start_pos_dict(sp))
                cur = sp_tables[k][1]
            return cur

        def init_agent(ag, sp, reset_call=False):
            with WR.Recorder() as rec:
                try:
                    fn = g.reset_agent if reset_call else g.register_agent
                    gs = WL.run_coro(fn(("10.1.0.%d" % ag, 1), "Attacker", sp_table(sp)))
                except Exception as e:
                    wk.hits.append(("C03", "initial view raises", f"building the initial view raised {type(e).__name__}: {e}",
                                    {"kind": "init", "scenario": name, "start_position": sp}))
                    return None
            picks = [WL.ip2n(p) for p in rec.picks]
            v = WL.impl_view(gs)
            wk.ops.append((f"OInit {ag} {WR.start_pos_term(sp, I)} [{'; '.join(f'{p}%N' for p in picks)}] {WL.view_term(v, I)}", "init",
                           f"init agent {ag} {sp}"))
            history.append({"op": "init", "agent": ag, "start_position": sp})
            snapshots.append((ag, copy.deepcopy(gs), gs))
            return gs

        def gen_start():
            ctrl = []
            for _ in range(rng.randrange(1, 3)):
                c = rng.random()
                if c < 0.6 and all_ips:
                    ctrl.append(rng.choice(all_ips))
                elif c < 0.8 and T0["start"]:
                    ctrl.append("random")
                else:
                    ctrl.append("all_local")
            sp = {"nets": rng.sample(nets, min(len(nets), rng.randrange(0, 2))),
                  "hosts": rng.sample(all_ips, min(len(all_ips), rng.randrange(0, 3))), "ctrl": ctrl}
            anchored = focus in ("C11", "C12")     # C11's premise: the start position itself is well-formed and anchored
            own = [c for c in ctrl if not isinstance(c, str)]
            if rng.random() < 0.3 and all_ips and (own or not anchored):
                h = rng.choice(own if anchored else all_ips)
                pool = sorted(T0["services"].get(T0["ip2host"][h], set())) + ([] if anchored else [("extra", "passive", "1.0", False)])
                if pool:
                    sp["svcs"] = {h: set(rng.sample(pool, rng.randrange(1, len(pool) + 1)))}
            if rng.random() < 0.3 and all_ips and (own or not anchored):
                h = rng.choice(own if anchored else all_ips)
                real = sorted(T0["data"].get(T0["ip2host"][h], set()))
                dt = set(real[:2]) if anchored else {("User1", "DataFromServer1", 0, ""), ("Start", "Data", 0, "")}
                if dt:
                    sp["data"] = {h: dt}
            if focus in ("C12", "C02", "C03", "C08") and own and "data" not in sp and rng.random() < 0.5:
                # C12 does not ask the start position to be anchored: data the role is configured to know from the start on a
                # host that holds none of its own (the usual exfiltration target) - what others put there later must reach this
                # agent through FindData only
                empty_hosts = [h for h in own if not T0["data"].get(T0["ip2host"][h])]
                if empty_hosts:
                    sp["data"] = {rng.choice(empty_hosts): {("Operator", "Toolkit", 0, "")}}
            return sp

        starts = [gen_start() for _ in range(n_agents)]
        if shared:
            # agents sharing hosts: all control the hosts that hold data and a common further host
            with_data = [i for i in all_ips if T0["data"].get(T0["ip2host"][i])]
            common = rng.sample(with_data, min(len(with_data), 3)) + rng.sample(all_ips, min(len(all_ips), 2))
            one = {"nets": [], "hosts": [], "ctrl": list(dict.fromkeys(common))}      # one role, one start position (one table)
            starts = [one for _ in range(n_agents)]
            if focus in ("C12", "C02", "C03", "C08") and rng.random() < 0.6:
                empty_common = [h for h in dict.fromkeys(common) if not T0["data"].get(T0["ip2host"][h])]
                if empty_common:
                    one["data"] = {empty_common[0]: {("Operator", "Toolkit", 0, "")}}
        views = []
        for ag in range(n_agents):
            gs = init_agent(ag, starts[ag])
            if gs is None:
                return wk
            views.append(gs)
        ep_first = {ag: WL.impl_view(views[ag]) for ag in range(n_agents)}
        # what each agent was last TOLD (a snapshot taken when the view was returned): "previous view" of C02/C03
        told = {ag: copy.deepcopy(WL.impl_view(views[ag])) for ag in range(n_agents)}
        exfiltrated = {}     # node -> data put there by exfiltration in this episode (C11_exists)
        probe = None
        forced = []          # scripted (agent, action generator) pairs, consumed before random generation
        scans_after_block = []
        blocked_in_episode = False
        for stepno in range(n_steps):
            # ---- reset?
            if resets and stepno > 0 and stepno % resets == 0:
                WL.run_coro(g.reset())
                Wref = WL.ref_reset(Wref)
                T = WL.impl_tables(g)
                wk.ops.append((f"OReset {WL.world_term(T, I)}", "reset", "reset"))
                history.append({"op": "reset"})
                wk.count("resets")
                if not WR.same_world(T, T0):
                    diff = [k for k in WR.WORLD_KEYS if WR.canon(T[k]) != WR.canon(T0[k])]
                    wk.hits.append(("C08", f"reset leaves {diff}", f"after reset the world tables {diff} differ from their initial condition",
                                    {"kind": "walk", "scenario": name, "history": list(history), "tables": diff}))
                exfiltrated = {}
                for ag in range(n_agents):
                    if "random" in starts[ag]["ctrl"] and [c for c in starts[ag]["ctrl"] if c != "random"]:
                        if id(starts[ag]) not in reset_sps:
                            reset_sps[id(starts[ag])] = dict(starts[ag], ctrl=[c for c in starts[ag]["ctrl"] if c != "random"])
                        sp = reset_sps[id(starts[ag])]
                    else:
                        sp = starts[ag]             # the very table of the join: one per role, episode after episode
                    gs = init_agent(ag, sp, reset_call=True)
                    if gs is None:
                        return wk
                    views[ag] = gs
                    ep_first[ag] = WL.impl_view(gs)
                    told[ag] = copy.deepcopy(WL.impl_view(gs))
                # the scans of the finished episode that came after a block are played again first thing in the new episode: the
                # blocks are lifted, so a result remembered from the old episode would show here
                forced[:0] = [(ag_, (lambda T_, v_, a_=a_: dict(a_, _after_reset=True))) for ag_, a_ in scans_after_block[-6:]]
                for _x in scans_after_block[-6:]:
                    wk.count("scans_replayed_after_reset")
                scans_after_block = []
                blocked_in_episode = False
            ag = rng.randrange(n_agents)
            T = WL.impl_tables(g)
            forced_fn = None
            if shared and n_agents >= 2:
                if not forced and rng.random() < 0.12:
                    # a scripted interaction of two agents on shared hosts: B learns a datum on Y, A inspects X for the first time,
                    # B exfiltrates the datum into X, A acts again (what B did must reach A only through the world)
                    A, B = rng.sample(range(n_agents), 2)
                    both = sorted(set(WL.impl_view(views[A])["ctrl"]) & set(WL.impl_view(views[B])["ctrl"]))
                    with_d = [i for i in both if T["data"].get(T["ip2host"].get(i))]
                    if len(with_d) >= 1 and len(both) >= 2:
                        Y = rng.choice(with_d)
                        X = rng.choice([i for i in both if i != Y])
                        def exfil(T_, v_, Y=Y, X=X):
                            ds = sorted(v_["data"].get(Y, set()))
                            return {"type": "ExfiltrateData", "src": Y, "tgt": X, "data": rng.choice(ds)} if ds else None
                        forced.extend([(B, lambda T_, v_, Y=Y: {"type": "FindData", "src": Y, "tgt": Y}),
                                       (A, lambda T_, v_, X=X: {"type": "FindData", "src": X, "tgt": X}),
                                       (B, exfil),
                                       (A, lambda T_, v_, X=X: {"type": "FindData", "src": X, "tgt": X} if rng.random() < 0.5 else
                                                               {"type": "ScanNetwork", "src": X, "net": rng.choice(sorted(T_["nets"]))} if T_["nets"] else None)])
                        wk.count("scripted_interactions")
            if forced:
                ag, forced_fn = forced.pop(0)
            v_live = WL.impl_view(views[ag])
            v = told[ag]
            if v_live != v:
                # the stored view is no longer what the agent was told: somebody's action reached into it; the next result can
                # then not be "previous view plus the documented effect" (C03/C02), and a returned view was modified (C11)
                for hp in ("C03", "C02"):
                    wk.hits.append((hp, "previous view changed behind the agent", f"the view agent {ag} was last given changed before its next action (another action reached into it): the next result cannot be the previous view (plus the documented effect)",
                                    {"kind": "walk", "scenario": name, "history": list(history), "agent": ag}))
                v = told[ag] = copy.deepcopy(v_live)
            perturbed = False
            if perturb and forced_fn is None and rng.random() < perturb:
                v = WR.perturb_view(rng, T, v)
                views[ag] = WL.to_gamestate(v)
                told[ag] = copy.deepcopy(v)
                wk.ops.append((f"OSetView {ag} {WL.view_term(v, I)}", "setview", "perturbed view"))
                history.append({"op": "setview", "agent": ag, "view": WR.canon(v)})
                perturbed = True
                wk.perturbed = True
            a = forced_fn(T, v) if forced_fn is not None else None
            if a is None:
              a = WR.gen_action(rng, T, v, types=(["FindData"] * 4 + ["ExfiltrateData"] * 4 + ["BlockIP"] * 2 + ["ScanNetwork", "FindServices", "ExploitService"]) if shared else None)
            after_reset = bool(a.pop("_after_reset", False))
            act = WL.to_action(a)
            pre = WL.ref_pre(Wref, v, a)
            before_objs = [(i, copy.deepcopy(o)) for i, o in enumerate(views)]
            try:
                new_gs = WL.run_coro(g.step(("10.1.0.%d" % ag, 1), views[ag], act))
            except Exception as e:
                wk.hits.append(("C02" if not pre else "C03", f"step raises {a['type']}", f"step raised {type(e).__name__}: {e}",
                                {"kind": "walk", "scenario": name, "history": list(history) + [{"op": "step", "agent": ag, "action": describe(a, WL)}]}))
                return wk
            history.append({"op": "step", "agent": ag, "action": describe(a, WL)})
            if a["type"] == "BlockIP" and pre:
                blocked_in_episode = True
                wk.count("effective_blocks")
                # ... and look at the blocked pair right away, from both ends
                if len(forced) < 4:
                    for s_, o_ in ((a["tgt"], a["blocked"]), (a["blocked"], a["tgt"])):
                        nets_o = [n_ for n_, members in T["nets"].items() if o_ in members]
                        if nets_o:
                            forced.append((ag, lambda T_, v_, s_=s_, n_=nets_o[0]: {"type": "ScanNetwork", "src": s_, "net": n_}))
            if a["type"] == "ScanNetwork" and blocked_in_episode:
                scans_after_block.append((ag, dict(a)))
            v2 = WL.impl_view(new_gs)
            shape = WL.shape_errors(new_gs)
            if shape:
                for p_ in ("C11", "C15"):
                    wk.hits.append((p_, "view is not made of sets", f"the view returned for {a['type']} is not well-formed: {'; '.join(shape[:3])} "
                                    "(it is not equal to what its own encoding decodes to)",
                                    {"kind": "walk", "scenario": name, "history": list(history), "shape_errors": shape[:6]}))
            T2 = WL.impl_tables(g)
            Wexp, vexp = WL.ref_step(Wref, v, a)
            changed = not WR.same_view(v, v2) or not WR.same_world(T, T2)
            wk.count(f"{a['type']}:{'pre' if pre else 'nopre'}:{'changed' if changed else 'same'}")
            tag = "reset" if after_reset else ("pre" if pre else "nopre")
            mut = a["type"] in ("ExfiltrateData", "BlockIP")
            wk.ops.append((f"OStep {ag} {WL.action_term(a, I)} {WL.view_term(v2, I)} " +
                           (f"(Some {WL.world_term(T2, I)})" if (mut or stepno % 7 == 0) else "None"), tag, json.dumps(describe(a, WL))))
            if not WR.same_view(v2, vexp) or not WR.same_world(T2, Wexp, ["data", "fw", "blocks", "ip2host", "nets", "services"]):
                prop = "C03" if pre else "C02"
                what = ("an action whose preconditions do not hold changed the view or the world" if not pre else
                        "an action whose preconditions hold did not have exactly its documented effect")
                if after_reset:
                    wk.hits.append(("C08", f"{a['type']} after the reset", "an action of the finished episode, played again right after the reset, does not give the observation the pristine world gives (something of the old episode survived the reset)",
                                    {"kind": "walk", "scenario": name, "history": list(history), "expected_view": WR.canon(vexp), "actual_view": WR.canon(v2)}))
                wk.hits.append((prop, f"{a['type']} {'effect without precondition' if not pre else 'wrong effect'}", what,
                                {"kind": "walk", "scenario": name, "history": list(history),
                                 "expected_view": WR.canon(vexp), "actual_view": WR.canon(v2),
                                 "world_diff": [k for k in ("data", "fw", "blocks") if WR.canon(T2[k]) != WR.canon(Wexp[k])]}))
                Wexp = copy.deepcopy({k: T2[k] for k in T2})
            Wref = Wexp
            Wref.setdefault("start", T0["start"])
            if a["type"] == "ExfiltrateData" and pre:
                exfiltrated.setdefault(T["ip2host"].get(a["tgt"]), set()).add(a["data"])
            # ---- C12 / C11: nobody else's view changes, returned views never change later
            for i, old in before_objs:
                if i != ag and WL.impl_view(views[i]) != WL.impl_view(old):
                    wk.hits.append(("C12", "another agent's view changed", f"agent {i}'s stored view changed while agent {ag} acted",
                                    {"kind": "walk", "scenario": name, "history": list(history), "agent": i}))
            if WL.impl_view(views[ag]) != v and not perturbed:
                wk.hits.append(("C11", "input view modified", "handling an action modified the view that was passed in (returned earlier)",
                                {"kind": "walk", "scenario": name, "history": list(history), "agent": ag}))
            for (sag, snap, live) in snapshots:
                if WL.impl_view(snap) != WL.impl_view(live):
                    wk.hits.append(("C11", "returned view modified later", f"a view returned earlier to agent {sag} was modified by a later step of agent {ag}",
                                    {"kind": "walk", "scenario": name, "history": list(history), "agent": sag}))
                    snapshots.remove((sag, snap, live))
                    if sag != ag:
                        wk.hits.append(("C12", "another agent's view changed", f"a view held by agent {sag} changed while agent {ag} acted",
                                        {"kind": "walk", "scenario": name, "history": list(history), "agent": sag}))
            snapshots.append((ag, copy.deepcopy(new_gs), new_gs))
            if len(snapshots) > 40:
                del snapshots[:10]
            # ---- C11 invariants along unperturbed walks
            if not getattr(wk, "perturbed", False):
                if not v2["ctrl"] <= v2["hosts"]:
                    wk.hits.append(("C11", "controlled not known", "a controlled host is not a known host", {"kind": "walk", "scenario": name, "history": list(history)}))
                if not set(v2["svcs"]) <= v2["hosts"]:
                    wk.hits.append(("C11", "services of unknown host", "services are known for a host that is not known", {"kind": "walk", "scenario": name, "history": list(history)}))
                if not set(v2["data"]) <= v2["ctrl"]:
                    wk.hits.append(("C11", "data on uncontrolled host", "data is known on a host that is not controlled", {"kind": "walk", "scenario": name, "history": list(history)}))
                shr = (not v["nets"] <= v2["nets"] or not v["hosts"] <= v2["hosts"] or not v["ctrl"] <= v2["ctrl"] or
                       any(not ds <= v2["data"].get(h, set()) for h, ds in v["data"].items()) or
                       any(not bs <= v2["blocks"].get(h, set()) for h, bs in v["blocks"].items()))
                if shr:
                    wk.hits.append(("C11", "view shrank", "a monotone part of the view shrank from one observation to the next", {"kind": "walk", "scenario": name, "history": list(history)}))
                ghost = [h for h in (v2["hosts"] | v2["ctrl"]) if h not in Wref["ip2host"]]
                bad_s = [(h, s) for h, ss in v2["svcs"].items() for s in ss if s not in Wref["services"].get(Wref["ip2host"].get(h), set())]
                bad_d = [(h, d) for h, ds in v2["data"].items() for d in ds
                         if d not in Wref["data0"].get(Wref["ip2host"].get(h), set()) and d not in exfiltrated.get(Wref["ip2host"].get(h), set())]
                if ghost or bad_s or bad_d:
                    wk.hits.append(("C11", "view contains something that does not exist", f"the view reports hosts/services/data that do not exist there: {ghost[:2]} {bad_s[:2]} {bad_d[:2]}",
                                    {"kind": "walk", "scenario": name, "history": list(history)}))
            views[ag] = new_gs
            told[ag] = copy.deepcopy(WL.impl_view(new_gs))
        return wk
    finally:
        drv.close()


def scenario_specs(ctx, rng, n_generated):
    nsgenv, WL, WR = _imports()
    specs = []
    for s in SHIPPED:
        for fw in (True, False):
            specs.append((f"{s}{'' if fw else '-nofw'}", nsgenv.base_config(s, use_firewall=fw), None))
    for k in range(n_generated):
        r = random.Random(rng.randrange(1 << 30))
        objs = WL.gen_scenario(r)
        specs.append((f"generated{k}", nsgenv.base_config("scenario1_small", use_firewall=r.random() < 0.8), objs))
    return specs


def world_suite(ctx, prop, tags, walks_per_spec, n_generated, n_steps, perturb, resets, n_agents=(1, 3), shared_every=0):
    """Run walks, feed them to the model, collect this property's monitor hits.
    tags: which op tags count for this property's correspondence."""
    rng = random.Random(ctx.seed * 7919 + int(prop[1:]))
    casedir = CK.fresh_casedir(ctx)
    walks = []
    for (name, cfg, objs) in scenario_specs(ctx, rng, n_generated):
        for w in range(walks_per_spec):
            try:
                wk = run_walk(rng, f"{name}#{w}", cfg, objs, prop, rng.randrange(n_agents[0], n_agents[1] + 1), n_steps, perturb, resets,
                              shared=bool(shared_every) and (len(walks) % shared_every == 0))
            except Exception as e:
                import traceback
                ctx.stage_errors.append((f"walk {name}#{w}", f"{type(e).__name__}: {e}\n{traceback.format_exc()[-800:]}"))
                continue
            walks.append(wk)
    paths = []
    for i, wk in enumerate(walks):
        body = ["From stdpp Require Import gmap.", "From Coq Require Import ZArith NArith.",
                "From NSG Require Import Model.World Model.Load Model.WorldCases.",
                "Definition ops : list op := [", ";\n".join(o[0] for o in wk.ops), "].",
                f"Definition sc : scenario := {wk.sc_term}.",
                f"Definition w0 : world := {wk.w0_term}.",
                f"Definition loaded : bool := check_load sc w0 {wk.start_term}.",
                "Eval vm_compute in (loaded, false_indices 0 (run w0 [] ops ++ [false]))."]
        p = os.path.join(casedir, f"walk_{i}.v")
        with open(p, "w") as f:
            f.write("\n".join(body))
        paths.append(p)
    res = CK.run_case_files(ctx, paths)
    import re
    disagreements = 0
    ops_checked = 0
    stats = {}
    for p, wk in zip(paths, walks):
        for k, n in wk.stats.items():
            stats[k] = stats.get(k, 0) + n
        ok, out = res[p]
        m = re.search(r"=\s*\((true|false),\s*\[(.*?)\]\s*\)", out.replace("\n", " ")) if ok else None
        if not m:
            ctx.stage_errors.append((f"coqc {os.path.basename(p)} ({wk.name})", out[-600:]))
            continue
        loaded = m.group(1) == "true"
        idx = [int(x.replace("%nat", "")) for x in m.group(2).split(";") if x.strip()]
        if len(wk.ops) not in idx:
            ctx.stage_errors.append((f"canary {os.path.basename(p)}", "deliberately false case not reported"))
        if not loaded and ("load" in tags):
            disagreements += 1
            ctx.broken.append(f"correspondence Model/Load.v vs _process_cyst_config on {wk.name}: loaded tables differ")
        for i in idx:
            if i < len(wk.ops) and wk.ops[i][1] in tags:
                disagreements += 1
                ctx.broken.append(f"correspondence Model/World.v vs NSEGameCoordinator.py on {wk.name} op {i} ({wk.ops[i][1]}): {wk.ops[i][2][:200]}")
        ops_checked += sum(1 for o in wk.ops if o[1] in tags) + (1 if "load" in tags else 0)
        for (hp, key, what, replay) in wk.hits:
            if hp == prop:
                ctx.violations.append({"key": key, "what": what, "replay": replay})
    ctx.coverage.update({
        "evaluations": sum(len(w.ops) for w in walks),
        "distinct_nontrivial": sum(1 for k, n in stats.items() if k.endswith("changed")) + len({o[0] for w in walks for o in w.ops if o[1] in tags}),
        "rule": "random walks of 1-3 agents on the three playable shipped scenarios (firewall on and off) and on generated topologies (nodes with 0-3 interfaces, several services and datapoints, routers with random ALLOW/DENY rules, private and public networks); actions mostly valid with parameters also drawn from non-existing hosts/services/data and uncontrolled sources; views optionally perturbed to unreachable ones; distinct = distinct op terms counted for this property, non-trivial = ops with this property's tag",
        "walks": len(walks), "ops_compared_for_this_property": ops_checked,
        "guard_coverage (action:precondition:effect)": stats,
        "disagreements_checked": ops_checked, "model_impl_disagreements": disagreements,
        "samples": [{"walk": w.name, "ops": [o[2] for o in w.ops[:6]]} for w in walks[:2]],
    })
    return walks
