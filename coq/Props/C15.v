(* C15 - Views and observations survive the wire unchanged.
   Statements only; proofs are in Proofs/ViewCodecFacts.v. *)
From stdpp Require Import gmap strings.
From NSG Require Import Model.Json Model.Ipv4Text Model.Codec Model.ViewCodec Proofs.ViewCodecFacts.
Open Scope string_scope.

(* every view (all six parts; empty parts; data with any size and type; any blocks) decodes from
   its dictionary encoding and from its JSON encoding to itself *)
Theorem C15_dict : forall v, view_ok v -> dec_view_dict (enc_view v) = Some v.
Proof. exact (dec_enc_view_gen true). Qed.
Theorem C15_json : forall v, view_ok v -> dec_view_json (enc_view v) = Some v.
Proof. exact (dec_enc_view_gen false). Qed.

(* the result does not depend on the order in which the sets and dictionaries were written
   (Python iterates sets in an arbitrary order) *)
Theorem C15_set_order : forall {A} `{Countable A} (f : json -> option A) l l',
  l ≡ₚ l' -> dec_set f (Some (JArr l)) = dec_set f (Some (JArr l')).
Proof. intros A ? ?. exact (dec_set_perm (A := A)). Qed.
Theorem C15_map_order : forall {A} `{Countable A} (f : json -> option A) o o',
  NoDup (o.*1) -> o ≡ₚ o' -> dec_map f (Some (JObj o)) = dec_map f (Some (JObj o')).
Proof. intros A ? ?. exact (dec_map_perm (A := A)). Qed.

(* two views are equal exactly when they contain the same elements *)
Theorem C15_eq : forall v w : view,
  v = w <->
  (forall i, i ∈ v_ctrl v <-> i ∈ v_ctrl w) /\ (forall i, i ∈ v_hosts v <-> i ∈ v_hosts w) /\
  (forall n, n ∈ v_nets v <-> n ∈ v_nets w) /\
  (forall h s, (exists S, v_svcs v !! h = Some S /\ s ∈ S) <-> (exists S, v_svcs w !! h = Some S /\ s ∈ S)) /\
  (forall h, is_Some (v_svcs v !! h) <-> is_Some (v_svcs w !! h)) /\
  (forall h d, (exists S, v_data v !! h = Some S /\ d ∈ S) <-> (exists S, v_data w !! h = Some S /\ d ∈ S)) /\
  (forall h, is_Some (v_data v !! h) <-> is_Some (v_data w !! h)) /\
  (forall h b, (exists S, v_blocks v !! h = Some S /\ b ∈ S) <-> (exists S, v_blocks w !! h = Some S /\ b ∈ S)) /\
  (forall h, is_Some (v_blocks v !! h) <-> is_Some (v_blocks w !! h)).
Proof. exact view_ext. Qed.

(* non-vacuity: a view with blocks and non-default data fields satisfies view_ok and round-trips *)
Example C15_nonvacuous :
  let v := {| v_ctrl := {["10.0.0.1"]}; v_hosts := {["10.0.0.1"; "10.0.0.2"]};
              v_svcs := {["10.0.0.2" := {[("ssh", "passive", "8.1", false)]}]};
              v_data := {["10.0.0.1" := {[("User1", "Data", 42%Z, "pdf"); ("User2", "", 0%Z, "")]}]};
              v_nets := {[("10.0.0.0", 24%Z)]};
              v_blocks := {["10.0.0.1" := {["10.0.0.2"]}]} |} in
  (enc_view <$> dec_view_json (enc_view v)) = Some (enc_view v) /\
  (enc_view <$> dec_view_dict (enc_view v)) = Some (enc_view v) /\
  (exists S, v_blocks v !! "10.0.0.1" = Some S /\ "10.0.0.2" ∈ S).
Proof.
  split; [vm_compute; reflexivity|]. split; [vm_compute; reflexivity|].
  eexists. split; [apply lookup_singleton | set_solver].
Qed.

Print Assumptions C15_dict.
Print Assumptions C15_json.
Print Assumptions C15_set_order.
Print Assumptions C15_map_order.
Print Assumptions C15_eq.
