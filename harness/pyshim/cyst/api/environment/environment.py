class Environment:
    @classmethod
    def create(cls):
        raise RuntimeError("cyst Environment is not available in the verification stub")
