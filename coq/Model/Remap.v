(* M2: dynamic addresses - the re-keying of the world tables performed by
   _create_new_network_mapping, and what makes a re-labelling valid.  No proofs in this file. *)
From stdpp Require Import gmap.
From Coq Require Import ZArith NArith.
From NSG Require Import Model.World Model.Load.

(* one re-labelling step: current address -> new address (mapping_ips / mapping_nets) *)
Record mapping := { m_ip : gmap ip ip; m_net : gmap net net }.

Definition mip (m : mapping) (i : ip) : ip := default i (m_ip m !! i).
Definition mnet (m : mapping) (n : net) : net := default n (m_net m !! n).

Definition map_ipset (m : mapping) (s : gset ip) : gset ip := set_map (mip m) s.

(* the code's loops: new_table[mapping[key]] = {mapping[x] for x in values} *)
Definition rekey_ipmap (m : mapping) (t : gmap ip (gset ip)) : gmap ip (gset ip) :=
  list_to_map (map (fun kv => (mip m (fst kv), map_ipset m (snd kv))) (map_to_list t)).
Definition rekey_nets (m : mapping) (t : gmap net (gset ip)) : gmap net (gset ip) :=
  list_to_map (map (fun kv => (mnet m (fst kv), map_ipset m (snd kv))) (map_to_list t)).
Definition rekey_hosts (m : mapping) (t : gmap ip node) : gmap ip node :=
  list_to_map (map (fun kv => (mip m (fst kv), snd kv)) (map_to_list t)).

(* the world after the re-labelling and the reset that follows it: services and data are keyed by
   node and are not touched; live firewall and blocks are restored from the (re-keyed) pristine copies *)
Definition rekey_world (m : mapping) (w : world) : world :=
  {| w_ip2host := rekey_hosts m (w_ip2host w); w_nets := rekey_nets m (w_nets w);
     w_services := w_services w; w_data := w_data w;
     w_fw := rekey_ipmap m (w_fw w); w_blocks := rekey_ipmap m (w_blocks w);
     w_data0 := w_data0 w; w_fw0 := rekey_ipmap m (w_fw0 w) |}.

(* a valid re-labelling of a world: defined and one-to-one on all its addresses and networks, every
   address inside its new network, masks kept, private stays private and public stays public, and all
   private networks are shifted by the same offset (relative distances kept) *)
Definition world_ips (w : world) : gset ip := dom (w_ip2host w) ∪ all_ips (w_nets w).
Definition inj_on {K V} `{Countable K} `{Countable V} (f : K -> V) (s : gset K) : bool :=
  forallb (fun x => forallb (fun y => implb (bool_decide (f x = f y)) (bool_decide (x = y))) (elements s)) (elements s).

Definition valid_mapping (w : world) (m : mapping) : bool :=
  bool_decide (world_ips w ⊆ dom (m_ip m)) && bool_decide (dom (w_nets w) ⊆ dom (m_net m)) &&
  inj_on (mip m) (world_ips w) && inj_on (mnet m) (dom (w_nets w)) &&
  forallb (fun kv =>
             let n := fst kv in let n' := mnet m n in
             N.eqb (snd n') (snd n) && Bool.eqb (net_private n') (net_private n) &&
             forallb (fun i => in_net (mip m i) n') (elements (snd kv)))
          (map_to_list (w_nets w)) &&
  (let priv := filter (fun n => net_private n = true) (elements (dom (w_nets w))) in
   match priv with
   | [] => true
   | n0 :: _ => forallb (fun n => Z.eqb (Z.of_N (fst (mnet m n)) - Z.of_N (fst n)) (Z.of_N (fst (mnet m n0)) - Z.of_N (fst n0))) priv
   end).

(* views restricted to the networks of the scenario (neighbouring networks added by the initial
   view are not scenario objects and are outside the re-labelling) *)
Definition view_restrict (w : world) (v : view) : view :=
  {| v_ctrl := v_ctrl v; v_hosts := v_hosts v; v_svcs := v_svcs v; v_data := v_data v;
     v_nets := filter (fun n => n ∈ dom (w_nets w)) (v_nets v); v_blocks := v_blocks v |}.

(* views and actions read through a re-labelling (for the equivariance theorem, Proofs/Equivariance.v) *)
Definition rekey_keys {A} (m : mapping) (t : gmap ip A) : gmap ip A :=
  list_to_map (map (fun kv => (mip m (fst kv), snd kv)) (map_to_list t)).
Definition map_view (m : mapping) (v : view) : view :=
  {| v_ctrl := map_ipset m (v_ctrl v); v_hosts := map_ipset m (v_hosts v);
     v_svcs := rekey_keys m (v_svcs v); v_data := rekey_keys m (v_data v);
     v_nets := set_map (mnet m) (v_nets v); v_blocks := rekey_ipmap m (v_blocks v) |}.
Definition map_action (m : mapping) (a : gaction) : gaction :=
  match a with
  | AScan src target => AScan (mip m src) (mnet m target)
  | AFindServices src tgt => AFindServices (mip m src) (mip m tgt)
  | AFindData src tgt => AFindData (mip m src) (mip m tgt)
  | AExploit src tgt s => AExploit (mip m src) (mip m tgt) s
  | AExfil src tgt d => AExfil (mip m src) (mip m tgt) d
  | ABlock src tgt blocked => ABlock (mip m src) (mip m tgt) (mip m blocked)
  end.

(* all addresses a world / view / action mentions *)
Definition ipmap_ips (t : gmap ip (gset ip)) : gset ip := dom t ∪ ⋃ (map snd (map_to_list t)).
Definition world_all_ips (w : world) : gset ip :=
  world_ips w ∪ ipmap_ips (w_fw w) ∪ ipmap_ips (w_blocks w) ∪ ipmap_ips (w_fw0 w).
Definition view_ips (v : view) : gset ip :=
  v_ctrl v ∪ v_hosts v ∪ dom (v_svcs v) ∪ dom (v_data v) ∪ ipmap_ips (v_blocks v).
Definition action_ips (a : gaction) : gset ip :=
  match a with
  | AScan src _ => {[src]}
  | AFindServices src tgt | AFindData src tgt | AExploit src tgt _ | AExfil src tgt _ => {[src; tgt]}
  | ABlock src tgt blocked => {[src; tgt; blocked]}
  end.
Definition action_nets (a : gaction) : gset net := match a with AScan _ t => {[t]} | _ => ∅ end.
(* a scan target keeps exactly its members: no host of the world falls into or out of the re-labelled network *)
Definition scan_faithful (m : mapping) (w : world) (a : gaction) : bool :=
  match a with
  | AScan _ t => forallb (fun i => Bool.eqb (in_net (mip m i) (mnet m t)) (in_net i t)) (elements (dom (w_ip2host w)))
  | _ => true
  end.

(* playing an action sequence from one view *)
Fixpoint play (w : world) (v : view) (acts : list gaction) : world * view :=
  match acts with
  | [] => (w, v)
  | a :: tl => play (fst (step w v a)) (snd (step w v a)) tl
  end.


(* a decidable form of the hypotheses of the equivariance theorem (Proofs/Equivariance.v), evaluated inside Coq on
   the re-labellings the implementation makes *)
Definition play_universe (w : world) (v : view) (acts : list gaction) : gset ip :=
  world_all_ips w ∪ view_ips v ∪ ⋃ (map action_ips acts).
Definition equiv_ready (m : mapping) (w : world) (v : view) (acts : list gaction) : bool :=
  inj_on (mip m) (play_universe w v acts) && inj_on (mnet m) (dom (w_nets w)) &&
  forallb (scan_faithful m w) acts.


(* start positions read through a re-labelling (Proofs/InitEquiv.v) *)
Definition map_sh (m : mapping) (s : start_host) : start_host :=
  match s with SHost i => SHost (mip m i) | SRandom => SRandom | SAllLocal => SAllLocal end.
Definition map_sp (m : mapping) (sp : start_pos) : start_pos :=
  {| sp_nets := map (mnet m) (sp_nets sp); sp_hosts := map (mip m) (sp_hosts sp); sp_ctrl := map (map_sh m) (sp_ctrl sp);
     sp_svcs := map (fun kv => (mip m (fst kv), snd kv)) (sp_svcs sp);
     sp_data := map (fun kv => (mip m (fst kv), snd kv)) (sp_data sp) |}.

