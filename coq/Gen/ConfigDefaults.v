(* GENERATED from AIDojoCoordinator/utils/utils.py by harness/translate/confdefaults.py; do not edit *)
From Coq Require Import String List.
Import ListNotations.
Open Scope string_scope.

Definition gen_config_getters : list (string * list string * string * string * list string * string) := [
  ("get_max_steps", ["coordinator"; "agents"; "<role>"; "max_steps"], "int", "None", ["KeyError"; "TypeError"], "x");
  ("get_rewards", ["env"; "rewards"; "<name>"], "", "0", ["KeyError"], "x");
  ("get_use_dynamic_addresses", ["env"; "use_dynamic_addresses"], "", "False", ["KeyError"], "bool(x)");
  ("get_store_trajectories", ["env"; "save_trajectories"], "", "False", ["KeyError"], "x");
  ("get_use_firewall", ["env"; "use_firewall"], "", "False", ["KeyError"], "x");
  ("get_use_global_defender", ["env"; "use_global_defender"], "", "False", ["KeyError"], "x");
  ("get_required_num_players", ["env"; "required_players"], "int", "1", ["KeyError"; "ValueError"], "x")
].
Definition gen_startup_glue : list (string * string) := [
  ("_get_max_steps_per_role", "get_max_steps");
  ("start_tasks", "get_required_num_players");
  ("start_tasks", "get_rewards");
  ("start_tasks", "get_use_dynamic_addresses");
  ("start_tasks", "get_use_global_defender")
].
