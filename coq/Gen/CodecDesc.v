(* GENERATED from AIDojoCoordinator/game_components.py and utils/utils.py by harness/translate/codec.py; do not edit *)
From Coq Require Import String List.
Import ListNotations.
Open Scope string_scope.

Definition gen_fields_IP : list (string * string * option string) := [("ip", "str", None)].
Definition gen_fields_Network : list (string * string * option string) := [("ip", "str", None); ("mask", "int", None)].
Definition gen_fields_Service : list (string * string * option string) := [("name", "str", None); ("type", "str", Some "'unknown'"); ("version", "str", Some "'unknown'"); ("is_local", "bool", Some "True")].
Definition gen_fields_Data : list (string * string * option string) := [("owner", "str", None); ("id", "str", None); ("size", "int", Some "0"); ("type", "str", Some "''")].
Definition gen_fields_AgentInfo : list (string * string * option string) := [("name", "str", None); ("role", "str", None)].
Definition gen_ip_repr : string := "return self.ip".
Definition gen_from_dict_arms : list (list string * string) := [(["source_host"; "target_host"; "blocked_host"], "params[k] = IP.from_dict(v)"); (["target_network"], "params[k] = Network.from_dict(v)"); (["target_service"], "params[k] = Service.from_dict(v)"); (["data"], "params[k] = Data.from_dict(v)"); (["agent_info"], "params[k] = AgentInfo.from_dict(v)"); (["request_trajectory"], "params[k] = ast.literal_eval(v)"); (["_"], "raise ValueError(f'Unsupported value in {k}: {v}')")].
Definition gen_from_dict_frame : list string := ["action_type = ActionType.from_string(data_dict['action_type'])"; "params = {}"; "return cls(action_type=action_type, parameters=params)"].
Definition gen_action_from_json : list string := ["data_dict = json.loads(json_string)"; "return cls.from_dict(data_dict)"].
Definition gen_action_to_json : list string := ["return json.dumps(self.as_dict)"].
Definition gen_action_as_dict : list string := ["params = {}"; "for k, v in self.parameters.items():
    if hasattr(v, '__dict__'):
        params[k] = asdict(v)
    else:
        params[k] = str(v)"; "return {'action_type': str(self.action_type), 'parameters': params}"].
Definition gen_action_eq : list string := ["if not isinstance(other, Action):
    return NotImplemented"; "return self.action_type == other.action_type and self.parameters == other.parameters"].
Definition gen_action_hash : list string := ["sorted_params = tuple(sorted(((k, hash(v)) for k, v in self.parameters.items())))"; "return hash((self.action_type, sorted_params))"].
Definition gen_atype_from_string : list string := ["if name.startswith('ActionType.'):
    name = name[len('ActionType.'):]"; "try:
    return cls[name]
except KeyError:
    raise ValueError(f'Invalid ActionType: {name}')"].
Definition gen_view_enc : list (string * string) := [("known_networks", "[dataclasses.asdict(x) for x in self.known_networks]"); ("known_hosts", "[dataclasses.asdict(x) for x in self.known_hosts]"); ("controlled_hosts", "[dataclasses.asdict(x) for x in self.controlled_hosts]"); ("known_services", "{str(host): [dataclasses.asdict(s) for s in services] for host, services in self.known_services.items()}"); ("known_data", "{str(host): [dataclasses.asdict(d) for d in data] for host, data in self.known_data.items()}"); ("known_blocks", "{str(target_host): [dataclasses.asdict(blocked_host) for blocked_host in blocked_hosts] for target_host, blocked_hosts in self.known_blocks.items()}")].
Definition gen_view_from_dict : list (string * string) := [("controlled_hosts", "{IP(x['ip']) for x in D['controlled_hosts']}"); ("known_blocks", "known_blocks"); ("known_data", "{IP(k): {Data(v['owner'], v['id'], v.get('size', 0), v.get('type', '')) for v in values} for k, values in D['known_data'].items()}"); ("known_hosts", "{IP(x['ip']) for x in D['known_hosts']}"); ("known_networks", "{Network(x['ip'], x['mask']) for x in D['known_networks']}"); ("known_services", "{IP(k): {Service(s['name'], s['type'], s['version'], s['is_local']) for s in services} for k, services in D['known_services'].items()}")].
Definition gen_view_from_dict_pre : list string := ["if 'known_blocks' in D:
    known_blocks = {IP(target_host): {IP(blocked_host['ip']) for blocked_host in blocked_hosts} for target_host, blocked_hosts in D['known_blocks'].items()}
else:
    known_blocks = {}"; "return state"].
Definition gen_view_from_json : list (string * string) := [("controlled_hosts", "{IP(x['ip']) for x in D['controlled_hosts']}"); ("known_blocks", "{IP(target_host): {IP(blocked_host['ip']) for blocked_host in blocked_hosts} for target_host, blocked_hosts in D['known_blocks'].items()}"); ("known_data", "{IP(k): {Data(v['owner'], v['id'], v.get('size', 0), v.get('type', '')) for v in values} for k, values in D['known_data'].items()}"); ("known_hosts", "{IP(x['ip']) for x in D['known_hosts']}"); ("known_networks", "{Network(x['ip'], x['mask']) for x in D['known_networks']}"); ("known_services", "{IP(k): {Service(s['name'], s['type'], s['version'], s['is_local']) for s in services} for k, services in D['known_services'].items()}")].
Definition gen_view_from_json_pre : list string := ["D = json.loads(json_string)"; "return state"].
Definition gen_view_as_json : list string := ["ret_dict = self.as_dict"; "return json.dumps(ret_dict)"].
Definition gen_obs : list (string * string) := [("state", "observation.state.as_dict"); ("reward", "observation.reward"); ("end", "observation.end"); ("info", "observation.info")].
