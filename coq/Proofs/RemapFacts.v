(* Facts about re-labelling (M2, Model/Remap.v): what a valid mapping guarantees, and that the
   re-keyed tables are the old tables read through the mapping. *)
From stdpp Require Import gmap.
From Coq Require Import ZArith NArith.
From NSG Require Import Model.World Model.Load Model.Remap.

Lemma inj_on_spec {K V} `{Countable K} `{Countable V} (f : K -> V) (s : gset K) :
  inj_on f s = true -> forall x y, x ∈ s -> y ∈ s -> f x = f y -> x = y.
Proof.
  unfold inj_on. rewrite forallb_forall. intros Hall x y Hx Hy Hf.
  specialize (Hall x (proj1 (elem_of_list_In _ _) (proj2 (elem_of_elements _ _) Hx))).
  rewrite forallb_forall in Hall.
  specialize (Hall y (proj1 (elem_of_list_In _ _) (proj2 (elem_of_elements _ _) Hy))).
  rewrite (bool_decide_eq_true_2 _ Hf) in Hall. simpl in Hall. apply bool_decide_eq_true in Hall. exact Hall.
Qed.

(* ---- lookups in a re-keyed table ---- *)
Section Rekey.
  Context {K A B : Type} `{Countable K}.
  Variables (fk : K -> K) (fv : A -> B).
  Definition rekey (t : gmap K A) : gmap K B :=
    list_to_map (map (fun kv => (fk (fst kv), fv (snd kv))) (map_to_list t)).

  Lemma rekey_lookup (t : gmap K A) k a :
    (forall x y, x ∈ dom t -> y ∈ dom t -> fk x = fk y -> x = y) ->
    t !! k = Some a -> rekey t !! fk k = Some (fv a).
  Proof.
    intros Hinj Hk. unfold rekey. apply elem_of_list_to_map_1.
    - rewrite <- list_fmap_compose.
      apply (NoDup_fmap_2_strong (fun kv => fk (fst kv))); [|apply NoDup_map_to_list].
      intros [k1 a1] [k2 a2] H1 H2 Hf. simpl in Hf.
      apply elem_of_map_to_list in H1, H2.
      assert (k1 = k2) by (apply Hinj; [apply elem_of_dom; eauto | apply elem_of_dom; eauto | exact Hf]).
      subst. congruence.
    - apply elem_of_list_fmap. exists (k, a). split; [reflexivity | apply elem_of_map_to_list, Hk].
  Qed.

  Lemma rekey_lookup_inv (t : gmap K A) k' b :
    rekey t !! k' = Some b -> exists k a, t !! k = Some a /\ k' = fk k /\ b = fv a.
  Proof.
    unfold rekey. intros Hl. apply elem_of_list_to_map_2 in Hl.
    apply elem_of_list_fmap in Hl as ([k a] & [= -> ->] & Hin). apply elem_of_map_to_list in Hin. eauto.
  Qed.
End Rekey.

Section RemapWorld.
  Variables (w : world) (m : mapping).
  Hypothesis Hv : valid_mapping w m = true.

  Lemma valid_parts :
    world_ips w ⊆ dom (m_ip m) /\ dom (w_nets w) ⊆ dom (m_net m) /\
    inj_on (mip m) (world_ips w) = true /\ inj_on (mnet m) (dom (w_nets w)) = true.
  Proof.
    unfold valid_mapping in Hv.
    apply andb_true_iff in Hv as [Hv5 _]. apply andb_true_iff in Hv5 as [Hv4 _].
    apply andb_true_iff in Hv4 as [Hv3 H4]. apply andb_true_iff in Hv3 as [Hv2 H3].
    apply andb_true_iff in Hv2 as [H1 H2].
    apply bool_decide_eq_true in H1, H2. auto.
  Qed.

  (* one-to-one on the addresses and on the networks of the world *)
  Theorem valid_ip_inj i j : i ∈ world_ips w -> j ∈ world_ips w -> mip m i = mip m j -> i = j.
  Proof. destruct valid_parts as (_ & _ & H1 & _). apply (inj_on_spec _ _ H1). Qed.
  Theorem valid_net_inj a b : a ∈ dom (w_nets w) -> b ∈ dom (w_nets w) -> mnet m a = mnet m b -> a = b.
  Proof. destruct valid_parts as (_ & _ & _ & H2). apply (inj_on_spec _ _ H2). Qed.

  (* every network keeps its mask and its kind (private/public); every address lies inside its new network *)
  Theorem valid_net_shape n ips :
    w_nets w !! n = Some ips ->
    snd (mnet m n) = snd n /\ net_private (mnet m n) = net_private n /\
    forall i, i ∈ ips -> in_net (mip m i) (mnet m n) = true.
  Proof.
    intros Hn. unfold valid_mapping in Hv. apply andb_true_iff in Hv as [Hv' _]. apply andb_true_iff in Hv' as [_ Hf].
    rewrite forallb_forall in Hf.
    assert (Hin : In (n, ips) (map_to_list (w_nets w))) by (apply elem_of_list_In, elem_of_map_to_list, Hn).
    pose proof (Hf (n, ips) Hin) as Hx. cbv beta zeta in Hx. cbn [fst snd] in Hx.
    apply andb_true_iff in Hx as [Hx Hi]. apply andb_true_iff in Hx as [Hm Hp].
    split; [apply N.eqb_eq, Hm|]. split; [apply Bool.eqb_prop, Hp|].
    intros i Hi'. rewrite forallb_forall in Hi. apply Hi. apply elem_of_list_In, elem_of_elements, Hi'.
  Qed.

  (* all private networks move by one and the same offset: relative distances are kept *)
  Theorem valid_distances a b :
    a ∈ dom (w_nets w) -> b ∈ dom (w_nets w) -> net_private a = true -> net_private b = true ->
    (Z.of_N (fst (mnet m a)) - Z.of_N (fst (mnet m b)) = Z.of_N (fst a) - Z.of_N (fst b))%Z.
  Proof.
    intros Ha Hb Hpa Hpb. unfold valid_mapping in Hv. apply andb_true_iff in Hv as [_ Hd].
    set (priv := filter (fun n => net_private n = true) (elements (dom (w_nets w)))) in *.
    assert (Hina : a ∈ priv) by (apply elem_of_list_filter; split; [exact Hpa | apply elem_of_elements, Ha]).
    assert (Hinb : b ∈ priv) by (apply elem_of_list_filter; split; [exact Hpb | apply elem_of_elements, Hb]).
    destruct priv as [|n0 tl] eqn:Ep; [inversion Hina|].
    rewrite forallb_forall in Hd.
    pose proof (Hd a (proj1 (elem_of_list_In _ _) Hina)) as H1. pose proof (Hd b (proj1 (elem_of_list_In _ _) Hinb)) as H2.
    apply Z.eqb_eq in H1, H2. lia.
  Qed.

  (* the re-keyed tables are the old tables read through the mapping *)
  Lemma dom_hosts_sub : dom (w_ip2host w) ⊆ world_ips w.
  Proof. unfold world_ips. set_solver. Qed.

  Theorem rekey_node_identity i n :
    w_ip2host w !! i = Some n -> w_ip2host (rekey_world m w) !! mip m i = Some n.
  Proof.
    intros Hi. simpl. unfold rekey_hosts.
    apply (rekey_lookup (mip m) (fun x : node => x) (w_ip2host w) i n); [|exact Hi].
    intros x y Hx Hy. apply valid_ip_inj; apply dom_hosts_sub; assumption.
  Qed.

  Theorem rekey_services_data_untouched :
    w_services (rekey_world m w) = w_services w /\ w_data (rekey_world m w) = w_data w /\ w_data0 (rekey_world m w) = w_data0 w.
  Proof. repeat split. Qed.

  Theorem rekey_membership n ips :
    w_nets w !! n = Some ips -> w_nets (rekey_world m w) !! mnet m n = Some (map_ipset m ips).
  Proof.
    intros Hn. simpl. unfold rekey_nets.
    apply (rekey_lookup (mnet m) (map_ipset m) (w_nets w) n ips); [|exact Hn].
    intros x y Hx Hy. apply valid_net_inj; assumption.
  Qed.

  Theorem rekey_connections i S :
    dom (w_fw w) ⊆ world_ips w -> w_fw w !! i = Some S ->
    w_fw (rekey_world m w) !! mip m i = Some (map_ipset m S).
  Proof.
    intros Hd Hi. simpl. unfold rekey_ipmap.
    apply (rekey_lookup (mip m) (map_ipset m) (w_fw w) i S); [|exact Hi].
    intros x y Hx Hy. apply valid_ip_inj; apply Hd; assumption.
  Qed.

  Theorem map_ipset_member (S : gset ip) j :
    S ⊆ world_ips w -> j ∈ world_ips w -> (mip m j ∈ map_ipset m S <-> j ∈ S).
  Proof.
    intros HS Hj. unfold map_ipset. rewrite elem_of_map. split.
    - intros (k & Hk & Hin). assert (j = k) by (apply valid_ip_inj; [exact Hj | apply HS, Hin | exact Hk]). subst. exact Hin.
    - intros Hin. exists j. auto.
  Qed.
End RemapWorld.
