(* C08 - A reset restores the world: episodes are independent of earlier episodes.
   Statements only; proofs in Proofs/WorldInv.v, Proofs/LoadFacts.v, Proofs/CoordViews.v, Proofs/Game.v. *)
From stdpp Require Import gmap.
From Coq Require Import ZArith NArith.
From NSG Require Import Model.Coord Proofs.CoordViews Model.World Model.Load Model.Game Proofs.WorldStep Proofs.WorldInv Proofs.LoadFacts Proofs.Game.

(* no action ever changes the static tables or the pristine copies *)
Theorem C08_static : forall w v a, same_static w (fst (step w v a)).
Proof. exact step_static. Qed.

(* after ANY sequence of actions of ANY agents (each with whatever view it has), reset gives the
   same world as resetting at once ... *)
Theorem C08_reset_play : forall w l, reset (play w l) = reset w.
Proof. exact reset_play. Qed.

(* ... which for the world loaded from a scenario is the initial world itself: exfiltrated data
   is gone, blocked connections are back, recorded blocks are forgotten *)
Theorem C08_restore : forall sc l, reset (play (load sc) l) = load sc.
Proof. intros. apply reset_restores, load_pristine. Qed.

(* with static addresses the same script yields the same observations in every episode *)
Theorem C08_independent : forall sc earlier v0 script,
  observe (reset (play (load sc) earlier)) v0 script = observe (load sc) v0 script.
Proof. intros. apply episodes_independent, load_pristine. Qed.

(* non-vacuity: an episode with a successful BlockIP really changes the firewall, and reset undoes it *)
Example C08_nonvacuous :
  let sc := {| s_nodes := [{| nc_id := 7%N; nc_ifaces := [(3232235778%N, (3232235776%N, 24%N))]; nc_active := false; nc_svcs := [] |};
                           {| nc_id := 8%N; nc_ifaces := [(3232235779%N, (3232235776%N, 24%N))]; nc_active := false; nc_svcs := [] |}];
               s_routers := []; s_use_fw := true |} in
  let v := {| v_ctrl := {[3232235778%N]}; v_hosts := {[3232235778%N]}; v_svcs := ∅; v_data := ∅; v_nets := ∅; v_blocks := ∅ |} in
  let w1 := play (load sc) [(v, ABlock 3232235778 3232235778 3232235779)%N] in
  fw_allows (load sc) 3232235778%N 3232235779%N = true /\ fw_allows w1 3232235778%N 3232235779%N = false /\
  fw_allows (reset w1) 3232235778%N 3232235779%N = true.
Proof. vm_compute. repeat split; reflexivity. Qed.

(* the whole game (Model/Game.v: coordinator model on the world model): whatever was played by however many agents in
   whatever interleaving, when the reset task resets the game the world is exactly the pristine scenario world again;
   and the static part of the world never changes at all *)
Theorem C08_whole_game : forall (sp : role -> start_pos) (goal : role -> view -> bool) (detect : list gaction -> gaction -> bool)
    (cfg : config) (w0 : world) (os : list (list ip)) (ls : list (@label gaction)) (s s' : @state view gworld gaction),
  pristine w0 ->
  @execs view gworld gaction g_wstep g_wreset (g_winit sp) goal detect cfg (init_state (w0, os)) ls = Some s ->
  @reset_run view gworld gaction g_wreset (g_winit sp) cfg s = Some s' ->
  ((match agents s with [] => false | _ => true end) && all_req (agents s)) = true ->
  fst (Coord.world s') = w0.
Proof. exact game_reset_restores. Qed.

Theorem C08_whole_game_static : forall (sp : role -> start_pos) (goal : role -> view -> bool) (detect : list gaction -> gaction -> bool)
    (cfg : config) (w0 : world) (os : list (list ip)) (ls : list (@label gaction)) (s : @state view gworld gaction),
  @execs view gworld gaction g_wstep g_wreset (g_winit sp) goal detect cfg (init_state (w0, os)) ls = Some s ->
  same_static w0 (fst (Coord.world s)).
Proof. exact game_world_static. Qed.

Print Assumptions C08_static.
Print Assumptions C08_reset_play.
Print Assumptions C08_restore.
Print Assumptions C08_independent.
Print Assumptions C08_whole_game.
Print Assumptions C08_whole_game_static.
