(* C04 / C05 / C06 across labels - "a defender's reported reason is Success exactly when no attacker succeeded", for a Defender that
   is paid at a LATER run of the reward task in the same episode (it joined, or finished, after the others were paid), and whatever
   the successful attacker has asked for since (a reset request, refused actions): statements over the coordinator model
   Model/Coord.v, for every reachable state, any number of agents, any interleaving.  Proofs are in Proofs/CoordReason.v. *)
From Coq Require Import ZArith NArith List Bool.
From NSG Require Import Base.Prelude Model.Defender Model.Coord Model.CoordExec Proofs.CoordAgentStep Proofs.CoordReason.
Import ListNotations.

(* the reason an attacker or a benign agent ended with does not change while it is in the game, until the reset task runs *)
Theorem C04_reason_stays :
  forall (V W G : Type) (wstep : W -> V -> G -> W * V) (wreset : W -> W) (winit : W -> role -> W * V)
         (goal : role -> V -> bool) (detect : list G -> G -> bool) (cfg : config)
         (w : W) (ls0 ls : list (@label G)) (s s' : @state V W G) (c : addr) (a : @agent V G),
    execs wstep wreset winit goal detect cfg (init_state w) ls0 = Some s ->
    execs wstep wreset winit goal detect cfg s ls = Some s' ->
    @no_reset G ls ->
    alookup c (agents s) = Some a -> a_ended a = true -> a_role a <> RDefender ->
    (exists a', alookup c (agents s') = Some a' /\ a_ended a' = true /\ a_role a' = a_role a /\ a_status a' = a_status a) \/
    @gone_along V W G wstep wreset winit goal detect cfg s ls c.
Proof. intros V W G wstep wreset winit goal detect cfg w ls0 ls s s' c a. exact (reason_stays_reachable wstep wreset winit goal detect cfg w ls0 ls s s' c a). Qed.

(* whenever the reward task pays: a Defender that has ended and is not yet paid is told Fail exactly when an attacker with reason
   Success is in the game, and Success exactly when there is none *)
Theorem C04_defender_paid_by_outcome :
  forall (V W G : Type) (cfg : config) (s s' : @state V W G) (c : addr) (d : @agent V G),
    rewards_run cfg s = Some s' -> all_ended (agents s) = true ->
    alookup c (agents s) = Some d -> a_role d = RDefender -> a_ended d = true -> a_rewarded d = false ->
    exists d', alookup c (agents s') = Some d' /\ a_rewarded d' = true /\
      (a_status d' = SFail <-> attacker_succeeded (agents s)) /\ (a_status d' = SSuccess <-> ~ attacker_succeeded (agents s)).
Proof. intros V W G cfg s s' c d. exact (rewards_run_defender cfg s s' c d). Qed.

(* together: an attacker that has succeeded and stays in the game decides the outcome of every Defender paid later in the episode *)
Theorem C04_late_defender :
  forall (V W G : Type) (wstep : W -> V -> G -> W * V) (wreset : W -> W) (winit : W -> role -> W * V)
         (goal : role -> V -> bool) (detect : list G -> G -> bool) (cfg : config)
         (w : W) (ls0 ls : list (@label G)) (s s1 s2 : @state V W G) (c : addr) (a : @agent V G) (k : addr) (d : @agent V G),
    execs wstep wreset winit goal detect cfg (init_state w) ls0 = Some s ->
    execs wstep wreset winit goal detect cfg s ls = Some s1 ->
    @no_reset G ls ->
    alookup c (agents s) = Some a -> a_ended a = true -> a_role a = RAttacker -> a_status a = SSuccess ->
    rewards_run cfg s1 = Some s2 -> all_ended (agents s1) = true ->
    alookup k (agents s1) = Some d -> a_role d = RDefender -> a_ended d = true -> a_rewarded d = false ->
    (exists d', alookup k (agents s2) = Some d' /\ a_rewarded d' = true /\ a_status d' = SFail) \/
    @gone_along V W G wstep wreset winit goal detect cfg s ls c.
Proof.
  intros V W G wstep wreset winit goal detect cfg w ls0 ls s s1 s2 c a k d.
  exact (late_defender_fail wstep wreset winit goal detect cfg w ls0 ls s s1 s2 c a k d).
Qed.

(* a Benign agent gets no bonus and is never marked rewarded: the reward task leaves its record exactly as it is *)
Theorem C05_benign_unpaid :
  forall (V G : Type) (cfg : config) (b : bool) (a : @agent V G), a_role a = RBenign -> reward_agent cfg b a = a.
Proof. intros V G cfg b a. exact (reward_agent_benign cfg b a). Qed.

(* non-vacuity: two required players. An attacker succeeds (view 8 is its goal) and is paid 99 together with the first defender
   (Fail, -11); the attacker asks for the reset, the first defender says QuitGame, a second defender takes the free place in the SAME
   episode, plays one action and ends at once; the reward task runs a second time and pays it -11 with reason Fail - the attacker's
   reason is still Success although its reset request is registered *)
Example C04_reason_nonvacuous :
  let cfg := {| required := 2; max_steps := fun _ => None; r_step := (-1)%Z; r_succ := 100%Z; r_fail := (-10)%Z;
                allowed := fun _ => true; save_traj := false |} in
  let ex := execs x_wstep x_wreset x_winit (x_goal [(0%Z, 8%N)]) (x_detect None (0%Z, 1%positive)) cfg in
  let g := MGame (ScanNetwork, 3%N) true in
  let ls1 : list (@label xG) :=
    [LConnect 1%N; LConnect 2%N; LArrive 1%N (CMsg (MJoin (Some (7%N, Some RAttacker)))); LRun (TConn 1%N); LRun TDispatch; LRun (THandler 0);
     LArrive 2%N (CMsg (MJoin (Some (8%N, Some RDefender)))); LRun (TConn 2%N); LRun TDispatch; LRun (THandler 1); LRun (THandler 0);
     LRun (TConn 1%N); LRun (TConn 2%N);
     LArrive 1%N (CMsg g); LRun (TConn 1%N); LRun TDispatch; LRun (THandler 2);
     LArrive 2%N (CMsg g); LRun (TConn 2%N); LRun TDispatch; LRun (THandler 3); LRun TRewards; LRun (THandler 2); LRun (THandler 3);
     LRun (TConn 1%N); LRun (TConn 2%N)] in
  let ls2 : list (@label xG) :=
    [LArrive 1%N (CMsg (MReset false)); LRun (TConn 1%N); LRun TDispatch; LRun (THandler 4);
     LArrive 2%N (CMsg MQuit); LRun (TConn 2%N); LRun TDispatch; LRun (THandler 5); LRun (TConn 2%N);
     LConnect 3%N; LArrive 3%N (CMsg (MJoin (Some (9%N, Some RDefender)))); LRun (TConn 3%N); LRun TDispatch; LRun (THandler 6); LRun (TConn 3%N);
     LArrive 3%N (CMsg g); LRun (TConn 3%N); LRun TDispatch; LRun (THandler 7)] in
  match ex (init_state [5%N; 6%N; 8%N; 9%N; 10%N; 11%N; 12%N]) ls1 with
  | Some s =>
      match ex s ls2 with
      | Some s1 =>
          match rewards_run cfg s1 with
          | Some s2 =>
              option_map (fun a => (a_role a, a_status a, a_ended a)) (alookup 1%N (agents s)) = Some (RAttacker, SSuccess, true) /\
              option_map (fun a => (a_status a, a_req a)) (alookup 1%N (agents s1)) = Some (SSuccess, true) /\
              all_ended (agents s1) = true /\
              option_map (fun d => (a_role d, a_ended d, a_rewarded d)) (alookup 3%N (agents s1)) = Some (RDefender, true, false) /\
              option_map (fun d => (a_status d, a_rewarded d, a_reward d)) (alookup 3%N (agents s2)) = Some (SFail, true, (-11)%Z)
          | None => False
          end
      | None => False
      end
  | None => False
  end.
Proof. vm_compute. repeat split; reflexivity. Qed.

Print Assumptions C04_reason_stays.
Print Assumptions C04_defender_paid_by_outcome.
Print Assumptions C04_late_defender.
Print Assumptions C05_benign_unpaid.
