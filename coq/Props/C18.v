(* C18 - Connection slots are bounded and always given back
   Statements only (printed by Coq from the proof files); proofs are in coq/Proofs/Coord*.v.

*)
From Coq Require Import ZArith NArith List Bool Arith.
From NSG Require Import Base.Prelude Model.Defender Model.Coord Proofs.CoordBase Proofs.CoordInv Proofs.CoordInvConn Proofs.CoordInvDispatch Proofs.CoordInvHandler Proofs.CoordProps Proofs.CoordDirect Proofs.CoordInv2 Proofs.CoordAgentStep Proofs.CoordBarrier Proofs.CoordMeasure Proofs.CoordIsolation Proofs.CoordLimit Proofs.CoordKinds Proofs.CoordFiles.
Import ListNotations.

(* in every reachable state the number of served connections is at most the configured number of required players *)
Theorem C18_bound :
  forall (V W G : Type) (wstep : W -> V -> G -> W * V) (wreset : W -> W) (winit : W -> role -> W * V)
         (goal : role -> V -> bool) (detect : list G -> G -> bool) (cfg : config) 
         (w : W) (ls : list (@label G)) (s : @state V W G),
       @execs V W G wstep wreset winit goal detect cfg (@init_state V W G w) ls = @Some (@state V W G) s ->
       @Bound V W G cfg s.
Proof. exact (@bound_reachable). Qed.

(* the counter is exactly the number of connections being served (every end of a served connection gave its slot back, exactly once) *)
Theorem C18_count :
  forall (V W G : Type) (wstep : W -> V -> G -> W * V) (wreset : W -> W) (winit : W -> role -> W * V)
         (goal : role -> V -> bool) (detect : list G -> G -> bool) (cfg : config) 
         (w : W) (ls : list (@label G)) (s : @state V W G),
       @execs V W G wstep wreset winit goal detect cfg (@init_state V W G w) ls = @Some (@state V W G) s ->
       @served V W G s =
       @length (addr * @conn V G)
         (@filter (addr * @conn V G)
            (fun x : addr * @conn V G =>
             match @c_state V G (@snd addr (@conn V G) x) with
             | CReading | CAwaiting => true
             | _ => false
             end) (@conns V W G s)).
Proof. exact (@served_reachable). Qed.

(* a connection beyond the limit is closed at once: nothing is written, nothing else changes *)
Theorem C18_reject :
  forall (V W G : Type) (cfg : config) (s : @state V W G) (c : addr) (cn : @conn V G),
       @alookup (@conn V G) c (@conns V W G s) = @Some (@conn V G) cn ->
       @c_state V G cn = CNew ->
       required cfg <= @served V W G s ->
       @conn_run V W G cfg s c =
       @Some (@state V W G)
         (@set_conns V W G s
            (@aupdate (@conn V G) c (fun x : @conn V G => @c_set_state V G x CClosed) (@conns V W G s))).
Proof. exact (@reject_over_limit). Qed.

(* below the limit a new connection is served *)
Theorem C18_admit :
  forall (V W G : Type) (cfg : config) (s : @state V W G) (c : addr) (cn : @conn V G),
       @alookup (@conn V G) c (@conns V W G s) = @Some (@conn V G) cn ->
       @c_state V G cn = CNew ->
       @served V W G s < required cfg ->
       exists s' : @state V W G,
         @conn_run V W G cfg s c = @Some (@state V W G) s' /\
         @served V W G s' <= S (@served V W G s) /\
         (forall cn' : @conn V G,
          @alookup (@conn V G) c (@conns V W G s') = @Some (@conn V G) cn' -> @c_state V G cn' <> CNew).
Proof. exact (@admit_under_limit). Qed.

(* the cleanup of a served connection releases one slot *)
Theorem C18_release :
  forall (V W G : Type) (s : @state V W G) (c : addr),
       @served V W G (@cleanup V W G s c) = @served V W G s - 1.
Proof. exact (@cleanup_releases). Qed.


(* non-vacuity: a concrete run of the executable instance reaches a state in which a request is
   held back at a barrier (two required players, one has joined) and the model is quiescent *)
From NSG Require Import Model.CoordExec.
Example C18_nonvacuous :
  let cfg := {| required := 2; max_steps := fun _ => Some 3; r_step := (-1)%Z; r_succ := 100%Z; r_fail := (-10)%Z;
                allowed := fun _ => true; save_traj := false |} in
  let run := execs x_wstep x_wreset x_winit (x_goal []) (x_detect None (0%Z, 1%positive)) cfg (init_state [5%N; 6%N])
               [LConnect 1%N; LArrive 1%N (CMsg (MJoin (Some (7%N, Some RAttacker)))); LRun (TConn 1%N); LRun TDispatch; LRun (THandler 0)] in
  match run with
  | Some s => quiescent x_wstep x_winit (x_goal []) (x_detect None (0%Z, 1%positive)) cfg s = true /\
              length (handlers s) = 1 /\ length (agents s) = 1 /\ served s = 1
  | None => False
  end.
Proof. vm_compute. repeat split; reflexivity. Qed.

Print Assumptions C18_bound.
Print Assumptions C18_count.
Print Assumptions C18_reject.
Print Assumptions C18_admit.
Print Assumptions C18_release.
