(* C01 - Every agent message is answered exactly once
   Statements only (printed by Coq from the proof files); proofs are in coq/Proofs/Coord*.v.
   Model: Model/Coord.v (one internal label = one atomic task step, unconstrained scheduler).
*)
From Coq Require Import ZArith NArith List Bool Arith.
From NSG Require Import Base.Prelude Model.Defender Model.Coord Proofs.CoordBase Proofs.CoordInv Proofs.CoordInvConn Proofs.CoordInvDispatch Proofs.CoordInvHandler Proofs.CoordProps Proofs.CoordDirect Proofs.CoordInv2 Proofs.CoordAgentStep Proofs.CoordBarrier Proofs.CoordMeasure Proofs.CoordIsolation Proofs.CoordLimit Proofs.CoordKinds Proofs.CoordFiles.
Import ListNotations.

(* token conservation, in EVERY reachable state and for every connection: a request that was read and not yet answered is in exactly one place - the action queue, a handler task, or the response queue; a connection that is not waiting has none *)
Theorem C01_tokens :
  forall (V W G : Type) (wstep : W -> V -> G -> W * V) (wreset : W -> W) (winit : W -> role -> W * V)
         (goal : role -> V -> bool) (detect : list G -> G -> bool) (cfg : config) 
         (w : W) (ls : list (@label G)) (s : @state V W G),
       @execs V W G wstep wreset winit goal detect cfg (@init_state V W G w) ls = @Some (@state V W G) s ->
       forall (c : addr) (cn : @conn V G),
       @alookup (@conn V G) c (@conns V W G s) = @Some (@conn V G) cn ->
       match @c_state V G cn with
       | CAwaiting =>
           @naq G c (@aq V W G s) + @nh V G c (@handlers V W G s) + @length (@qitem V G) (@c_queue V G cn) =
           1
       | CClosed =>
           @c_queue V G cn = [] /\
           (forall m : @msg G, @In (addr * @msg G) (c, m) (@aq V W G s) -> m = @MQuit G) /\
           (forall h : @handler V G,
            @In (@handler V G) h (@handlers V W G s) ->
            @h_addr V G h = c -> @spawned_msg V G h = @Some (@msg G) (@MQuit G))
       | _ =>
           @naq G c (@aq V W G s) + @nh V G c (@handlers V W G s) + @length (@qitem V G) (@c_queue V G cn) =
           0
       end.
Proof. exact (@tokens_reachable). Qed.

(* requests and responses alternate on every connection: never a response nobody asked for, never two for one request (Alt: reading => #requests = #responses; awaiting => one more request; closed => at most one unanswered, the one answered by closing) *)
Theorem C01_alternation :
  forall (V W G : Type) (wstep : W -> V -> G -> W * V) (wreset : W -> W) (winit : W -> role -> W * V)
         (goal : role -> V -> bool) (detect : list G -> G -> bool) (cfg : config) 
         (w : W) (ls : list (@label G)) (s : @state V W G),
       @execs V W G wstep wreset winit goal detect cfg (@init_state V W G w) ls = @Some (@state V W G) s ->
       @Alt V W G s.
Proof. exact (@alt_reachable). Qed.

(* the bounded response queue (maxsize 2) can never block a handler: it holds at most one item *)
Theorem C01_queue_bound :
  forall (V W G : Type) (wstep : W -> V -> G -> W * V) (wreset : W -> W) (winit : W -> role -> W * V)
         (goal : role -> V -> bool) (detect : list G -> G -> bool) (cfg : config) 
         (w : W) (ls : list (@label G)) (s : @state V W G),
       @execs V W G wstep wreset winit goal detect cfg (@init_state V W G w) ls = @Some (@state V W G) s ->
       forall (c : addr) (cn : @conn V G),
       @alookup (@conn V G) c (@conns V W G s) = @Some (@conn V G) cn ->
       @length (@qitem V G) (@c_queue V G cn) <= 1.
Proof. exact (@queue_bound_reachable). Qed.

(* when no task can run, every connection that awaits an answer has exactly one handler, and it is parked at one of the three barriers with its wait not released *)
Theorem C01_quiescent :
  forall (V W G : Type) (wstep : W -> V -> G -> W * V) (wreset : W -> W) (winit : W -> role -> W * V)
         (goal : role -> V -> bool) (detect : list G -> G -> bool) (cfg : config) 
         (w : W) (ls : list (@label G)) (s : @state V W G) (c : addr) (cn : @conn V G),
       @execs V W G wstep wreset winit goal detect cfg (@init_state V W G w) ls = @Some (@state V W G) s ->
       @quiescent V W G wstep winit goal detect cfg s = true ->
       @alookup (@conn V G) c (@conns V W G s) = @Some (@conn V G) cn ->
       @c_state V G cn = CAwaiting ->
       exists h : @handler V G,
         @In (@handler V G) h (@handlers V W G s) /\
         @h_addr V G h = c /\
         @parked_unreleased V G h /\
         @naq G c (@aq V W G s) = 0 /\ @c_queue V G cn = [] /\ @nh V G c (@handlers V W G s) = 1.
Proof. exact (@quiescent_reachable). Qed.

(* and that barrier is genuinely unmet (no lost wake-up): in every reachable idle state a handler held at the end barrier coexists with an agent that has not finished, one held at the reset barrier with an agent that has not asked, one held at the start barrier with a clear start event - what is unanswered waits for other players, never for the server *)
Theorem C01_idle_unmet :
  forall (V W G : Type) (wstep : W -> V -> G -> W * V) (wreset : W -> W) (winit : W -> role -> W * V)
         (goal : role -> V -> bool) (detect : list G -> G -> bool) (cfg : config) 
         (w : W) (ls : list (@label G)) (s : @state V W G) (h : @handler V G),
       @execs V W G wstep wreset winit goal detect cfg (@init_state V W G w) ls = @Some (@state V W G) s ->
       @quiescent V W G wstep winit goal detect cfg s = true ->
       @In (@handler V G) h (@handlers V W G s) ->
       match @h_pc V G h with
       | PRewards false _ _ => @some_not_ended V W G s
       | PResetDone false _ => @some_not_asked V W G s
       | PJoinStart false _ | PResetStart false _ => @ev_start V W G s = false
       | _ => True
       end.
Proof. exact (@idle_barriers_unmet). Qed.

(* progress: the measure `mu` (Proofs/CoordMeasure.v: weighted count of unread input, queued messages, handler tasks by wait state, queued responses and pending task events) strictly decreases with EVERY task step, from every state satisfying the invariant *)
Theorem C01_progress :
  forall (V W G : Type) (wstep : W -> V -> G -> W * V) (wreset : W -> W) (winit : W -> role -> W * V)
         (goal : role -> V -> bool) (detect : list G -> G -> bool) (cfg : config) 
         (s s' : @state V W G) (t : task),
       @Inv V W G s ->
       @exec V W G wstep wreset winit goal detect cfg s (@LRun G t) = @Some (@state V W G) s' ->
       @mu V W G s' < @mu V W G s.
Proof. exact (@mu_decreases). Qed.

(* so from every reachable state at most `mu s` task steps can happen before the coordinator is idle again or new input arrives: an answer whose barrier is met is delivered after finitely many steps (with C01_quiescent / C01_idle_unmet: at rest, nothing is unanswered except behind an unmet barrier) *)
Theorem C01_no_livelock :
  forall (V W G : Type) (wstep : W -> V -> G -> W * V) (wreset : W -> W) (winit : W -> role -> W * V)
         (goal : role -> V -> bool) (detect : list G -> G -> bool) (cfg : config) 
         (w : W) (ls0 ls : list (@label G)) (s s' : @state V W G),
       @execs V W G wstep wreset winit goal detect cfg (@init_state V W G w) ls0 = @Some (@state V W G) s ->
       (forall l : @label G, @In (@label G) l ls -> @internal G l) ->
       @execs V W G wstep wreset winit goal detect cfg s ls = @Some (@state V W G) s' ->
       @length (@label G) ls <= @mu V W G s.
Proof. exact (@bounded_internal_runs_reachable). Qed.

(* the answer fits the question: a handler step puts at most one item on a response queue, on the queue of the connection it works for, and the item fits the request it was spawned for (JoinGame: CREATED / BAD_REQUEST; ResetGame: RESET_DONE / BAD_REQUEST; game action: OK / FORBIDDEN / BAD_REQUEST; QuitGame: close) *)
Theorem C01_answer_fits :
  forall (V W G : Type) (wstep : W -> V -> G -> W * V) (winit : W -> role -> W * V)
         (goal : role -> V -> bool) (detect : list G -> G -> bool) (cfg : config) 
         (s s' : @state V W G) (h : @handler V G),
       @h_wake V W G wstep winit goal detect cfg s h = @Some (@state V W G) s' ->
       @one_answer V W G s s' (@h_addr V G h) (@kind_of_pc V G (@h_pc V G h)).
Proof. exact (@h_wake_answer). Qed.

(* and a handler that is held at a barrier keeps the kind of its request, so the eventual answer fits too *)
Theorem C01_keeps_kind :
  forall (V W G : Type) (wstep : W -> V -> G -> W * V) (winit : W -> role -> W * V)
         (goal : role -> V -> bool) (detect : list G -> G -> bool) (cfg : config) 
         (s s' : @state V W G) (h h' : @handler V G),
       @h_wake V W G wstep winit goal detect cfg s h = @Some (@state V W G) s' ->
       @In (@handler V G) h' (@handlers V W G s') ->
       @h_id V G h' = @h_id V G h -> @kind_of_pc V G (@h_pc V G h') = @kind_of_pc V G (@h_pc V G h).
Proof. exact (@h_wake_keeps_kind). Qed.

(* a handler parked at a barrier always belongs to a registered agent (its continuation cannot fail) *)
Theorem C01_parked_have_agents :
  forall (V W G : Type) (wstep : W -> V -> G -> W * V) (wreset : W -> W) (winit : W -> role -> W * V)
         (goal : role -> V -> bool) (detect : list G -> G -> bool) (cfg : config) 
         (w : W) (ls : list (@label G)) (s : @state V W G) (h : @handler V G),
       @execs V W G wstep wreset winit goal detect cfg (@init_state V W G w) ls = @Some (@state V W G) s ->
       @In (@handler V G) h (@handlers V W G s) ->
       @parked V G h -> @alookup (@agent V G) (@h_addr V G h) (@agents V W G s) <> @None (@agent V G).
Proof. exact (@parked_have_agents_reachable). Qed.

(* an unparsable message is answered with BAD_REQUEST by the dispatcher *)
Theorem C01_garbage_answered :
  forall (V W G : Type) (s : @state V W G) (c : addr),
       @dispatch1 V W G s (c, @MGarbage G) = @respond V W G s c (@RBad V G) /\
       @game_part V W G (@dispatch1 V W G s (c, @MGarbage G)) = @game_part V W G s /\
       @handlers V W G (@dispatch1 V W G s (c, @MGarbage G)) = @handlers V W G s /\
       (forall k : addr,
        k <> c ->
        @alookup (@conn V G) k (@conns V W G (@dispatch1 V W G s (c, @MGarbage G))) =
        @alookup (@conn V G) k (@conns V W G s)).
Proof. exact (@reject_garbage). Qed.

(* the dispatcher can always take the next message *)
Theorem C01_dispatcher_alive :
  forall (V W G : Type) (s : @state V W G),
       @aq V W G s <> [] -> @dispatch_run V W G s <> @None (@state V W G).
Proof. exact (@dispatcher_alive). Qed.


(* non-vacuity: a concrete run of the executable instance reaches a state in which a request is
   held back at a barrier (two required players, one has joined) and the model is quiescent *)
From NSG Require Import Model.CoordExec.
Example C01_nonvacuous :
  let cfg := {| required := 2; max_steps := fun _ => Some 3; r_step := (-1)%Z; r_succ := 100%Z; r_fail := (-10)%Z;
                allowed := fun _ => true; save_traj := false |} in
  let run := execs x_wstep x_wreset x_winit (x_goal []) (x_detect None (0%Z, 1%positive)) cfg (init_state [5%N; 6%N])
               [LConnect 1%N; LArrive 1%N (CMsg (MJoin (Some (7%N, Some RAttacker)))); LRun (TConn 1%N); LRun TDispatch; LRun (THandler 0)] in
  match run with
  | Some s => quiescent x_wstep x_winit (x_goal []) (x_detect None (0%Z, 1%positive)) cfg s = true /\
              length (handlers s) = 1 /\ length (agents s) = 1 /\ served s = 1
  | None => False
  end.
Proof. vm_compute. repeat split; reflexivity. Qed.

Print Assumptions C01_tokens.
Print Assumptions C01_alternation.
Print Assumptions C01_queue_bound.
Print Assumptions C01_quiescent.
Print Assumptions C01_idle_unmet.
Print Assumptions C01_progress.
Print Assumptions C01_no_livelock.
Print Assumptions C01_answer_fits.
Print Assumptions C01_keeps_kind.
Print Assumptions C01_parked_have_agents.
Print Assumptions C01_garbage_answered.
Print Assumptions C01_dispatcher_alive.
