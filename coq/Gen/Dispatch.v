(* GENERATED from AIDojoCoordinator/coordinator.py by harness/translate/dispatch.py; do not edit *)
From Coq Require Import String List.
From NSG Require Import Base.Prelude.
Import ListNotations.
Open Scope string_scope.

Definition gen_dispatch_arms : list (atype * string * bool * bool) := [(JoinGame, "self._process_join_game_action", true, true); (QuitGame, "self._process_quit_game_action", true, false); (ResetGame, "self._process_reset_game_action", true, true); (ExfiltrateData, "self._process_game_action", true, true); (FindData, "self._process_game_action", true, true); (ScanNetwork, "self._process_game_action", true, true); (FindServices, "self._process_game_action", true, true); (ExploitService, "self._process_game_action", true, true); (BlockIP, "self._process_game_action", true, true)].
Definition gen_required_params : list (atype * list (string * string)) := [(ScanNetwork, [("source_host", "IP"); ("target_network", "Network")]); (FindServices, [("source_host", "IP"); ("target_host", "IP")]); (FindData, [("source_host", "IP"); ("target_host", "IP")]); (ExploitService, [("source_host", "IP"); ("target_host", "IP"); ("target_service", "Service")]); (ExfiltrateData, [("source_host", "IP"); ("target_host", "IP"); ("data", "Data")]); (BlockIP, [("source_host", "IP"); ("target_host", "IP"); ("blocked_host", "IP")])].
Definition gen_default : string := "reply_bad_request".
Definition gen_parse_failure : string := "reply_bad_request_and_continue".
Definition gen_after_parse : string := "match_follows_try".
Definition gen_validation_shape : string := "isinstance_of_get_hashable_returns_reason_none_when_valid".
Definition gen_validation_order : string := "member_validate_refuse_then_effects".
Definition gen_time_dependence : string := "two_heartbeat_sleeps".
Definition gen_conn_failure : string := "forward_quit".
Definition gen_conn_cleanup : string := "decrement_pop_queue_close".
Definition gen_admission : string := "reject_at_limit".
Definition gen_limit : string := "required_players".
