(* C04 - An episode ends exactly when it should, for the right reason, and stays ended
   Statements only (printed by Coq from the proof files); proofs are in coq/Proofs/Coord*.v.

*)
From Coq Require Import ZArith NArith List Bool Arith.
From NSG Require Import Base.Prelude Model.Defender Model.Coord Proofs.CoordBase Proofs.CoordInv Proofs.CoordInvConn Proofs.CoordInvDispatch Proofs.CoordInvHandler Proofs.CoordProps Proofs.CoordDirect Proofs.CoordInv2 Proofs.CoordAgentStep Proofs.CoordBarrier Proofs.CoordMeasure Proofs.CoordIsolation Proofs.CoordLimit Proofs.CoordKinds Proofs.CoordFiles.
Import ListNotations.

(* the reason: goal reached => Success; else detected => Fail; else step limit reached => TimeoutReached; else unchanged *)
Theorem C04_status :
  forall (V G : Type) (goal : role -> V -> bool) (detect : list G -> G -> bool) 
         (cfg : config) (a : @agent V G) (v' : V) (act : G),
       @next_status V G goal detect cfg a v' act =
       (if goal (@a_role V G a) v'
        then SSuccess
        else
         if detect (@t_actions V G (@a_traj V G a)) act
         then SFail
         else
          if
           match max_steps cfg (@a_role V G a) with
           | Some m => (0 <? m) && (m <=? @a_steps V G a)
           | None => false
           end
          then STimeout
          else @a_status V G a).
Proof. exact (@status_rule). Qed.

(* the step of a playing agent: counter +1, new view from the world, status by the rule, end = terminal status or (not an attacker still playing and no other attacker still playing); final results wait at the rewards barrier, non-final ones are answered at once *)
Theorem C04_step :
  forall (V W G : Type) (wstep : W -> V -> G -> W * V) (winit : W -> role -> W * V)
         (goal : role -> V -> bool) (detect : list G -> G -> bool) (cfg : config) 
         (s : @state V W G) (id : nat) (c : addr) (act : G) (a : @agent V G) (w' : W) 
         (v' : V),
       @alookup (@agent V G) c (@agents V W G s) = @Some (@agent V G) a ->
       @a_ended V G a = false ->
       wstep (@world V W G s) (@a_view V G a) act = (w', v') ->
       let a2 := @stepped_agent V W G goal detect cfg s c a act v' in
       let ags := @aupdate (@agent V G) c (fun _ : @agent V G => a2) (@agents V W G s) in
       let s1 := @set_agents V W G (@set_world V W G s w') ags in
       let s2 := if @all_ended V G ags then @set_ev_end V W G s1 true else s1 in
       @h_start V W G wstep winit goal detect cfg s id c (@MGame G act true) =
       (if @a_ended V G a2
        then @park V W G s2 id (@PRewards V G false act v')
        else @game_finish V W G s2 id c act v').
Proof. exact (@game_step_eq). Qed.

(* the reply carries the stored view, reward, end flag and the end reason iff the status is terminal *)
Theorem C04_reply :
  forall (V W G : Type) (s : @state V W G) (id : nat) (c : addr) (act : G) (v' : V) (a : @agent V G),
       @alookup (@agent V G) c (@agents V W G s) = @Some (@agent V G) a ->
       @game_finish V W G s id c act v' =
       @respond V W G
         (@remove_handler V W G
            (@set_agents V W G s
               (@aupdate (@agent V G) c
                  (fun _ : @agent V G =>
                   @a_set_obs V G
                     (@a_set_traj V G a (@traj_add V G (@a_traj V G a) act (@a_reward V G a) v'))
                     (@a_view V G a, @a_reward V G a, @a_ended V G a)) (@agents V W G s))) id) c
         (@ROk V G (@a_view V G a) (@a_reward V G a) (@a_ended V G a)
            (if terminal (@a_status V G a) then @Some status (@a_status V G a) else @None status)).
Proof. exact (@game_finish_eq). Qed.

(* after the end every game action is refused with FORBIDDEN, the last sent view, the current reward and reason ... *)
Theorem C04_absorbing :
  forall (V W G : Type) (wstep : W -> V -> G -> W * V) (winit : W -> role -> W * V)
         (goal : role -> V -> bool) (detect : list G -> G -> bool) (cfg : config) 
         (s : @state V W G) (id : nat) (c : addr) (act : G) (a : @agent V G),
       @alookup (@agent V G) c (@agents V W G s) = @Some (@agent V G) a ->
       @a_ended V G a = true ->
       @h_start V W G wstep winit goal detect cfg s id c (@MGame G act true) =
       @respond V W G (@remove_handler V W G s id) c
         (@RForbidden V G (@fst V Z (@fst (V * Z) bool (@a_obs V G a))) (@a_reward V G a) (@a_status V G a)).
Proof. exact (@forbidden_after_end). Qed.

(* ... and changes no counter, view, status, world or trajectory *)
Theorem C04_absorbing_frame :
  forall (V W G : Type) (s : @state V W G) (id : nat) (c : addr) (r : @resp V G),
       @game_part V W G (@respond V W G (@remove_handler V W G s id) c r) = @game_part V W G s /\
       @aq V W G (@respond V W G (@remove_handler V W G s id) c r) = @aq V W G s /\
       (forall k : addr,
        k <> c ->
        @alookup (@conn V G) k (@conns V W G (@respond V W G (@remove_handler V W G s id) c r)) =
        @alookup (@conn V G) k (@conns V W G s)) /\
       (forall h : @handler V G,
        @In (@handler V G) h (@handlers V W G (@respond V W G (@remove_handler V W G s id) c r)) <->
        @In (@handler V G) h (@handlers V W G s) /\ @h_id V G h <> id).
Proof. exact (@respond_frame). Qed.

(* a defender's reason becomes Success exactly when no attacker succeeded *)
Theorem C04_defender_reason :
  forall (V G : Type) (cfg : config) (successful : bool) (a : @agent V G),
       @a_rewarded V G a = false ->
       @a_ended V G a = true ->
       @a_role V G a <> RBenign ->
       let a' := @reward_agent V G cfg successful a in
       @a_rewarded V G a' = true /\
       @a_reward V G a' = (@a_reward V G a + @final_bonus V G cfg a')%Z /\
       (@a_role V G a = RAttacker -> @a_status V G a' = @a_status V G a) /\
       (@a_role V G a = RDefender -> @a_status V G a' = SSuccess <-> successful = false).
Proof. exact (@reward_agent_bonus). Qed.

(* ACROSS LABELS: from any reachable state in which an agent's episode has ended, along every continuation without a run of the reset task (any interleaving, other agents acting, joining, leaving), the agent - while it is in the game - stays ended and its step counter and view do not move *)
Theorem C04_stays_ended :
  forall (V W G : Type) (wstep : W -> V -> G -> W * V) (wreset : W -> W) (winit : W -> role -> W * V)
         (goal : role -> V -> bool) (detect : list G -> G -> bool) (cfg : config) 
         (w : W) (ls0 ls : list (@label G)) (s s' : @state V W G) (c : addr) (a : @agent V G),
       @execs V W G wstep wreset winit goal detect cfg (@init_state V W G w) ls0 = @Some (@state V W G) s ->
       @execs V W G wstep wreset winit goal detect cfg s ls = @Some (@state V W G) s' ->
       @no_reset G ls ->
       @alookup (@agent V G) c (@agents V W G s) = @Some (@agent V G) a ->
       @a_ended V G a = true ->
       (exists a' : @agent V G,
          @alookup (@agent V G) c (@agents V W G s') = @Some (@agent V G) a' /\
          @a_ended V G a' = true /\ @a_steps V G a' = @a_steps V G a /\ @a_view V G a' = @a_view V G a) \/
       @gone_along V W G wstep wreset winit goal detect cfg s ls c.
Proof. exact (@ended_stays_reachable). Qed.

(* the step limit, in EVERY reachable state: an agent whose role has a limit m > 0 has taken at most m steps in its episode, and one that has taken m has ended (the m-th action ends the episode at the latest, whatever the interleaving) *)
Theorem C04_limit :
  forall (V W G : Type) (wstep : W -> V -> G -> W * V) (wreset : W -> W) (winit : W -> role -> W * V)
         (goal : role -> V -> bool) (detect : list G -> G -> bool) (cfg : config) 
         (w : W) (ls : list (@label G)) (s : @state V W G) (c : addr) (a : @agent V G) 
         (m : nat),
       @execs V W G wstep wreset winit goal detect cfg (@init_state V W G w) ls = @Some (@state V W G) s ->
       @alookup (@agent V G) c (@agents V W G s) = @Some (@agent V G) a ->
       max_steps cfg (@a_role V G a) = @Some nat m ->
       0 < m -> @a_steps V G a <= m /\ (@a_steps V G a = m -> @a_ended V G a = true).
Proof. exact (@step_limit_reachable). Qed.

(* where the records of the next state come from: from the record of the same address by one of the listed changes, or - for an address that had none - as the fresh record of a successful join *)
Theorem C04_origin :
  forall (V W G : Type) (wstep : W -> V -> G -> W * V) (wreset : W -> W) (winit : W -> role -> W * V)
         (goal : role -> V -> bool) (detect : list G -> G -> bool) (cfg : config) 
         (s s' : @state V W G) (l : @label G) (c : addr) (a' : @agent V G),
       @Inv2 V W G s ->
       @exec V W G wstep wreset winit goal detect cfg s l = @Some (@state V W G) s' ->
       @alookup (@agent V G) c (@agents V W G s') = @Some (@agent V G) a' ->
       (exists a : @agent V G,
          @alookup (@agent V G) c (@agents V W G s) = @Some (@agent V G) a /\
          @achange V G goal detect cfg a l a') \/
       @alookup (@agent V G) c (@agents V W G s) = @None (@agent V G) /\
       (exists (name : N) (r : role) (v : V), a' = @new_agent V G name r v).
Proof. exact (@agent_origin). Qed.

(* what one label can do to one agent's record, from every reachable state: the complete case list `achange` (Proofs/CoordAgentStep.v): nothing; request flag set; own action (only when not ended); answer recorded; trajectory restarted; reward task; reset task (only when it had asked) *)
Theorem C04_one_label :
  forall (V W G : Type) (wstep : W -> V -> G -> W * V) (wreset : W -> W) (winit : W -> role -> W * V)
         (goal : role -> V -> bool) (detect : list G -> G -> bool) (cfg : config) 
         (w : W) (ls0 : list (@label G)) (s s' : @state V W G) (l : @label G) (c : addr) 
         (a : @agent V G),
       @execs V W G wstep wreset winit goal detect cfg (@init_state V W G w) ls0 = @Some (@state V W G) s ->
       @exec V W G wstep wreset winit goal detect cfg s l = @Some (@state V W G) s' ->
       @alookup (@agent V G) c (@agents V W G s) = @Some (@agent V G) a ->
       @stepped V G goal detect cfg (@agents V W G s') c a l.
Proof. exact (@agent_step_reachable). Qed.


(* non-vacuity: a concrete run of the executable instance reaches a state in which a request is
   held back at a barrier (two required players, one has joined) and the model is quiescent *)
From NSG Require Import Model.CoordExec.
Example C04_nonvacuous :
  let cfg := {| required := 2; max_steps := fun _ => Some 3; r_step := (-1)%Z; r_succ := 100%Z; r_fail := (-10)%Z;
                allowed := fun _ => true; save_traj := false |} in
  let run := execs x_wstep x_wreset x_winit (x_goal []) (x_detect None (0%Z, 1%positive)) cfg (init_state [5%N; 6%N])
               [LConnect 1%N; LArrive 1%N (CMsg (MJoin (Some (7%N, Some RAttacker)))); LRun (TConn 1%N); LRun TDispatch; LRun (THandler 0)] in
  match run with
  | Some s => quiescent x_wstep x_winit (x_goal []) (x_detect None (0%Z, 1%positive)) cfg s = true /\
              length (handlers s) = 1 /\ length (agents s) = 1 /\ served s = 1
  | None => False
  end.
Proof. vm_compute. repeat split; reflexivity. Qed.

(* non-vacuity of the cross-label theorems: a concrete run of the executable instance (one attacker, step limit 1)
   reaches a state in which the agent has been rewarded (step reward -1 plus fail bonus -10); continuing the run
   (the released handler answers, the agent is refused a further action, the reward task is not enabled again)
   the record is exactly the same *)
Example C04_episode_nonvacuous :
  let cfg := {| required := 1; max_steps := fun _ => Some 1; r_step := (-1)%Z; r_succ := 100%Z; r_fail := (-10)%Z;
                allowed := fun _ => true; save_traj := false |} in
  let ex := execs x_wstep x_wreset x_winit (x_goal []) (x_detect None (0%Z, 1%positive)) cfg in
  let g := MGame (ScanNetwork, 3%N) true in
  let ls0 := [LConnect 1%N; LArrive 1%N (CMsg (MJoin (Some (7%N, Some RAttacker)))); LRun (TConn 1%N); LRun TDispatch; LRun (THandler 0);
              LRun (TConn 1%N); LArrive 1%N (CMsg g); LRun (TConn 1%N); LRun TDispatch; LRun (THandler 1); LRun TRewards] in
  let ls := [LRun (THandler 1); LRun (TConn 1%N); LArrive 1%N (CMsg g); LRun (TConn 1%N); LRun TDispatch; LRun (THandler 2); LRun (TConn 1%N)] in
  match ex (init_state [5%N; 6%N; 8%N]) ls0 with
  | Some s =>
      match alookup 1%N (agents s), ex s ls with
      | Some a, Some s' =>
          a_rewarded a = true /\ a_ended a = true /\ a_reward a = (-11)%Z /\ a_status a = STimeout /\
          (exists h, In h (handlers s) /\ h_pc h = PRewards true (ScanNetwork, 3%N) 6%N) /\
          match alookup 1%N (agents s') with
          | Some a' => a_reward a' = (-11)%Z /\ a_steps a' = 1 /\ length (t_actions (a_traj a')) = 1
          | None => False
          end
      | _, _ => False
      end
  | None => False
  end.
Proof. vm_compute. repeat split; try reflexivity. eexists. split; [left; reflexivity | reflexivity]. Qed.

Print Assumptions C04_status.
Print Assumptions C04_step.
Print Assumptions C04_reply.
Print Assumptions C04_absorbing.
Print Assumptions C04_absorbing_frame.
Print Assumptions C04_defender_reason.
Print Assumptions C04_stays_ended.
Print Assumptions C04_limit.
Print Assumptions C04_origin.
Print Assumptions C04_one_label.
