#!/venv/bin/python
"""C20 worker: plays a fixed probe session on the real coordinator in THIS interpreter process and
prints the canonical transcript (decoded responses, sets canonicalised) and the configuration hash.
Run by props/c20.py in separate processes with different PYTHONHASHSEED values."""
import json
import os
import sys

_H = os.path.dirname(os.path.abspath(__file__))
sys.path[:0] = [os.path.join(_H, "pyshim"), os.environ.get("VERIF_REPO", "/repo"), _H]
import nsgenv
import coordrun as CR
from nsgenv import msg, ip


def canon(x):
    if isinstance(x, dict):
        return {k: canon(v) for k, v in sorted(x.items())}
    if isinstance(x, list):
        return sorted((canon(i) for i in x), key=lambda z: json.dumps(z, sort_keys=True))
    return x


def main():
    scenario, dynamic, seed, episodes = sys.argv[1], sys.argv[2] == "1", int(sys.argv[3]), int(sys.argv[4])
    # global defender on: attackers repeat one scan, so that many detection draws are made (the draws must come from the seeded stream)
    defender = len(sys.argv) > 5 and sys.argv[5] == "1"
    nsteps = 14 if defender else 6
    # trajectories are saved AND requested: what is written to the file must not leak into what is sent
    cfg = nsgenv.base_config(scenario, use_dynamic_addresses=dynamic, required_players=4, use_global_defender=defender, save_trajectories=True)
    cfg["coordinator"]["agents"]["Attacker"]["max_steps"] = nsteps
    cfg["coordinator"]["agents"]["Attacker"]["start_position"]["controlled_hosts"] = ["random"]
    cfg["coordinator"]["agents"]["Attacker"]["goal"]["known_data"] = {}
    cfg["coordinator"]["agents"]["Attacker"]["goal"]["known_hosts"] = ["1.1.1.1"]
    cfg["coordinator"]["agents"]["Defender"]["goal"]["known_data"] = {"1.1.1.1": [["x", "y"]]}
    import tempfile
    os.makedirs(nsgenv.BUILD, exist_ok=True)
    os.chdir(tempfile.mkdtemp(prefix="c20w_", dir=nsgenv.BUILD))
    # a first, throw-away start tells which hosts are random-start candidates in this scenario; the
    # probed configuration then mixes fixed hosts (one of them a start candidate), 'random' and known hosts
    # (that first coordinator is started on a configuration WITHOUT a Defender section - an attacker-only game hosted earlier in the
    # same process: nothing of it - not even what it concluded about the roles - may reach the games that follow)
    import copy
    cfg0 = copy.deepcopy(cfg)
    cfg0["coordinator"]["agents"].pop("Defender", None)
    d0 = nsgenv.start(cfg0, seed=seed)
    d0.settle()                                  # runs its start-up to the point where it serves
    if not hasattr(d0.g, "hosts_to_start"):
        d0.g._initialize()
    cands = sorted(str(h) for h in d0.g.hosts_to_start)
    others = sorted(str(h) for h in d0.g._ip_to_hostname if str(h) not in cands)
    d0.close()
    sp = cfg["coordinator"]["agents"]["Attacker"]["start_position"]
    sp["controlled_hosts"] = ([others[0]] if others else []) + cands[:2] + ["random"]
    sp["known_hosts"] = others[1:4]
    cfg["env"]["required_players"] = 4
    # the same configuration FILE is used by two coordinators started one after the other in this process: the second
    # game must be the first one over again (nothing of a finished game may live on in the process)
    path = nsgenv.write_config(cfg)
    try:
        first = play(cfg, seed, episodes, nsteps, defender, path)
        # ... and its agents connect from OTHER peer addresses, whose order is the reverse of the order of joining: which agent is
        # which is decided by the messages, never by the numbers of the addresses the connections happen to come from
        second = play(cfg, seed, episodes, nsteps, defender, path, peers=[("10.9.0.9", 40009), ("10.5.0.3", 30003), ("10.1.0.1", 20001), ("10.0.0.2", 1002)])
    finally:
        os.unlink(path)
    first["second_run_equal"] = (second["transcript"] == first["transcript"] and second["hash"] == first["hash"] and
                                 second["ip_mapping"] == first["ip_mapping"] and second["errors"] == first["errors"])
    if not first["second_run_equal"]:
        k = next((i for i, (x, y) in enumerate(zip(first["transcript"], second["transcript"])) if x != y), None)
        first["second_run_first_difference"] = [k, first["transcript"][k] if k is not None else None, second["transcript"][k] if k is not None else None] if k is not None else [len(first["transcript"]), len(second["transcript"])]
    print(json.dumps(first))
    import shutil
    wd = os.getcwd()
    os.chdir(nsgenv.BUILD)
    shutil.rmtree(wd, ignore_errors=True)


def play(cfg, seed, episodes, nsteps, defender, path, peers=None):
    d = nsgenv.start(cfg, seed=seed, path=path)
    g = d.g
    transcript = []
    # three attackers (each with a 'random' start host) and one defender; addresses are fixed
    attackers = [("10.5.0.1", 1), ("10.5.0.3", 3), ("10.5.0.4", 4)]
    b = ("10.5.0.2", 2)
    label = {attackers[0]: 1, attackers[1]: 3, attackers[2]: 4, b: 2}
    if peers:
        attackers, b = [tuple(x) for x in peers[:3]], tuple(peers[3])
        label = {attackers[0]: 1, attackers[1]: 3, attackers[2]: 4, b: 2}
    a = attackers[0]
    everyone = attackers + [b]

    def exchange(addr, text):
        d.send(addr, text)
        d.settle()

    def drain():
        for addr in everyone:
            for raw in d.new_output(addr):
                doc = json.loads(raw[:-3].decode())
                doc.pop("to_agent", None)
                transcript.append([label[addr], canon(doc)])

    for addr in everyone:
        d.connect(addr)
    d.settle()
    for i, addr in enumerate(attackers):
        exchange(addr, nsgenv.join("alice%d" % i, "Attacker"))
    exchange(b, nsgenv.join("dora", "Defender"))
    drain()
    join_problems = [f"join of agent {lab} (the configuration defines its role) answered {doc.get('status')}: {str(doc.get('message'))[:120]}"
                     for lab, doc in transcript if isinstance(doc, dict) and "CREATED" not in str(doc.get("status"))]
    if len(transcript) != 4:
        join_problems.append(f"{len(transcript)} of 4 joins were answered once all required players had joined")
    for ep in range(episodes):
        # requests that are refused: the refusal texts are part of the responses and must not depend on the process either
        # (several required parameters missing at once, unknown parameters, an unsupported type, text that is not JSON)
        for bad in (msg("ScanNetwork"), msg("BlockIP"), msg("ExfiltrateData", data={"owner": "a", "id": "b", "size": 0, "type": ""}),
                    msg("FindServices", bogus=1, other=2, third=3), '{"action_type": "ActionType.Nope", "parameters": {}}', "not json",
                    nsgenv.join("again", "Attacker"),
                    # a trajectory flag that is text but no literal: the refusal must not quote addresses of parser objects
                    msg("ResetGame", request_trajectory="true"), msg("ResetGame", request_trajectory="yes()"), msg("ResetGame", request_trajectory="[1,")):
            exchange(attackers[ep % len(attackers)], bad)
            drain()
        for step in range(nsteps):
            for who, a in enumerate(attackers):
                st = g._agent_states.get(a)
                if st is None or not st.controlled_hosts:
                    # not in the game (its join was refused): it still sends the same kind of message
                    exchange(a, msg("ScanNetwork", source_host=ip("192.168.2.2"), target_network={"ip": "192.168.1.0", "mask": 24}))
                    drain()
                    continue
                ctrl = sorted(str(h) for h in st.controlled_hosts)
                known = sorted(str(h) for h in st.known_hosts)
                nets = sorted((n.ip, n.mask) for n in st.known_networks)
                k = ep + step + who
                if defender and nets:
                    n = nets[who % len(nets)]
                    exchange(a, msg("ScanNetwork", source_host=ip(ctrl[0]), target_network={"ip": n[0], "mask": n[1]}))
                elif k % 3 == 0 and nets:
                    n = nets[k % len(nets)]
                    exchange(a, msg("ScanNetwork", source_host=ip(ctrl[0]), target_network={"ip": n[0], "mask": n[1]}))
                elif k % 3 == 1:
                    exchange(a, msg("FindServices", source_host=ip(ctrl[0]), target_host=ip(known[k % len(known)])))
                else:
                    svcs = sorted(((str(h), s) for h, ss in st.known_services.items() for s in ss), key=lambda x: (x[0], x[1].name))
                    if svcs:
                        h, s = svcs[k % len(svcs)]
                        exchange(a, msg("ExploitService", source_host=ip(ctrl[0]), target_host=ip(h),
                                        target_service={"name": s.name, "type": s.type, "version": s.version, "is_local": s.is_local}))
                    else:
                        exchange(a, msg("FindData", source_host=ip(ctrl[0]), target_host=ip(ctrl[0])))
                drain()
            dst = g._agent_states.get(b)
            dctrl = sorted(str(h) for h in dst.controlled_hosts) if dst is not None else []
            if not dctrl:
                exchange(b, msg("FindData", source_host=ip("192.168.1.2"), target_host=ip("192.168.1.2")))
            elif step % 2 == 0:
                exchange(b, msg("FindData", source_host=ip(dctrl[0]), target_host=ip(dctrl[step % len(dctrl)])))
            else:
                exchange(b, msg("BlockIP", source_host=ip(dctrl[0]), target_host=ip(dctrl[0]), blocked_host=ip(dctrl[-1])))
            drain()
        for i, a in enumerate(attackers):
            exchange(a, msg("ResetGame", request_trajectory="True") if i == 0 else msg("ResetGame"))
        exchange(b, msg("ResetGame"))
        drain()
    errors = [str(e) for e in d.task_errors] + join_problems
    out = {"hash": g._CONFIG_FILE_HASH, "transcript": transcript, "errors": errors,
           "ip_mapping": sorted((str(k), str(v)) for k, v in g._ip_mapping.items())}
    d.close()
    return out


if __name__ == "__main__":
    main()
