(* Common header: arithmetic automation for boolean models. *)
From Coq Require Export ZArith NArith List Bool Lia ZifyBool ZifyNat ZifyN.
Export ListNotations.
Ltac Zify.zify_post_hook ::= Z.to_euclidean_division_equations.

(* Action types of the game: checked equal to the generated enumeration (Obl/EnumsOk.v). *)
Inductive atype :=
| ScanNetwork | FindServices | FindData | ExploitService | ExfiltrateData | BlockIP
| JoinGame | QuitGame | ResetGame.

Definition atype_eqb (a b : atype) : bool :=
  match a, b with
  | ScanNetwork, ScanNetwork | FindServices, FindServices | FindData, FindData
  | ExploitService, ExploitService | ExfiltrateData, ExfiltrateData | BlockIP, BlockIP
  | JoinGame, JoinGame | QuitGame, QuitGame | ResetGame, ResetGame => true
  | _, _ => false
  end.

Lemma atype_eqb_spec a b : reflect (a = b) (atype_eqb a b).
Proof. destruct a, b; simpl; constructor; congruence. Qed.

Lemma atype_eqb_eq a b : atype_eqb a b = true <-> a = b.
Proof. destruct (atype_eqb_spec a b); split; congruence. Qed.

Lemma atype_eqb_refl a : atype_eqb a a = true.
Proof. destruct a; reflexivity. Qed.

Definition all_atypes : list atype :=
  [ScanNetwork; FindServices; FindData; ExploitService; ExfiltrateData; BlockIP; JoinGame; QuitGame; ResetGame].

Lemma all_atypes_complete a : In a all_atypes.
Proof. destruct a; simpl; tauto. Qed.

Definition atype_index (a : atype) : N :=
  match a with
  | ScanNetwork => 0 | FindServices => 1 | FindData => 2 | ExploitService => 3
  | ExfiltrateData => 4 | BlockIP => 5 | JoinGame => 6 | QuitGame => 7 | ResetGame => 8
  end%N.
