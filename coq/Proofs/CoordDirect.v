(* Decision rules and frame facts of the coordinator model that follow directly from the step
   functions: rejections (C09), departures (C10), episode end (C04), rewards (C05), barriers (C06),
   reset (C07), connection slots (C18). *)
From Coq Require Import ZArith NArith List Bool Arith Lia.
From NSG Require Import Model.Coord Proofs.CoordBase Proofs.CoordInv.
Import ListNotations.

Section Direct.
  Context {V W G : Type}.
  Variable wstep : W -> V -> G -> W * V.
  Variable wreset : W -> W.
  Variable winit : W -> role -> W * V.
  Variable goal : role -> V -> bool.
  Variable detect : list G -> G -> bool.
  Variable cfg : config.

  Notation state := (@state V W G).
  Notation conn := (@conn V G).
  Notation handler := (@handler V G).
  Notation agent := (@agent V G).
  Notation msg := (@msg G).
  Notation h_start := (@h_start V W G wstep winit goal detect cfg).
  Notation rewards_run := (@rewards_run V W G cfg).
  Notation reset_run := (@reset_run V W G wreset winit cfg).

  (* the part of the state that is the game: everything but connections, queues and handler tasks *)
  Definition game_part (s : state) := (agents s, world s, ev_start s, ev_end s, ev_reset s, files s).

  (* ---- C09: what is a bad request in a given state ---- *)
  Definition bad_request (s : state) (c : addr) (m : msg) : bool :=
    match m with
    | MGarbage => true
    | MJoin info =>
        match alookup c (agents s) with
        | Some _ => true                                       (* second join *)
        | None => match info with
                  | None => true                                (* no agent_info *)
                  | Some (_, None) => true                      (* unknown role *)
                  | Some (_, Some r) => negb (allowed cfg r)
                  end
        end
    | MQuit => false
    | MReset _ => match alookup c (agents s) with None => true | Some _ => false end      (* reset before join *)
    | MGame _ valid => match alookup c (agents s) with None => true | Some _ => negb valid end
    end.

  (* a garbage message is answered by the dispatcher with BAD_REQUEST; nothing but the sender's
     response queue changes *)
  Theorem reject_garbage (s : state) c :
    dispatch1 s (c, MGarbage) = respond s c RBad /\
    game_part (dispatch1 s (c, MGarbage)) = game_part s /\
    handlers (dispatch1 s (c, MGarbage)) = handlers s /\
    (forall k, k <> c -> alookup k (conns (dispatch1 s (c, MGarbage))) = alookup k (conns s)).
  Proof.
    repeat split. intros k Hne. simpl. apply alookup_aupdate_ne. congruence.
  Qed.

  (* every other bad request is answered by its handler with BAD_REQUEST and changes nothing else *)
  Theorem reject_bad_request (s : state) id c m :
    m <> MGarbage -> bad_request s c m = true ->
    h_start s id c m = respond (remove_handler s id) c RBad.
  Proof.
    intros Hng Hb. unfold Coord.h_start. destruct m as [|info| |want|act valid]; simpl in Hb.
    - congruence.
    - destruct (alookup c (agents s)); [reflexivity|]. destruct info as [[name [r|]]|]; try reflexivity.
      rewrite Hb. reflexivity.
    - discriminate.
    - destruct (alookup c (agents s)); [discriminate | reflexivity].
    - destruct (alookup c (agents s)); [|reflexivity]. rewrite Hb. reflexivity.
  Qed.

  Theorem respond_frame (s : state) id c r :
    game_part (respond (remove_handler s id) c r) = game_part s /\
    aq (respond (remove_handler s id) c r) = aq s /\
    (forall k, k <> c -> alookup k (conns (respond (remove_handler s id) c r)) = alookup k (conns s)) /\
    (forall h, In h (handlers (respond (remove_handler s id) c r)) <-> In h (handlers s) /\ h_id h <> id).
  Proof.
    repeat split.
    - intros k Hne. simpl. apply alookup_aupdate_ne. congruence.
    - simpl in H. apply filter_In in H as [H _]. exact H.
    - simpl in H. apply filter_In in H as [_ H]. apply negb_true_iff, Nat.eqb_neq in H. exact H.
    - intros [H1 H2]. simpl. apply filter_In. split; [exact H1 | apply negb_true_iff, Nat.eqb_neq, H2].
  Qed.

  (* the dispatcher can always run when a message is queued, and the action a handler executes is
     the content of the message that spawned it *)
  Theorem dispatcher_alive (s : state) : aq s <> [] -> dispatch_run s <> None.
  Proof. unfold dispatch_run. destruct (aq s); [congruence | discriminate]. Qed.

  Theorem no_replay (s : state) c m : m <> MGarbage ->
    handlers (dispatch1 s (c, m)) = handlers s ++ [{| h_id := next_hid s; h_addr := c; h_pc := PSpawned m |}].
  Proof. intros H. destruct m; try reflexivity. congruence. Qed.

  (* ---- C04: the status rule, the end rule, the absorbing terminal state ---- *)
  Theorem status_rule (a : agent) v' act :
    next_status goal detect cfg a v' act =
      if goal (a_role a) v' then SSuccess
      else if detect (t_actions (a_traj a)) act then SFail
      else if (match max_steps cfg (a_role a) with Some m => Nat.ltb 0 m && Nat.leb m (a_steps a) | None => false end) then STimeout
      else a_status a.
  Proof. reflexivity. Qed.

  Theorem forbidden_after_end (s : state) id c act a :
    alookup c (agents s) = Some a -> a_ended a = true ->
    h_start s id c (MGame act true) = respond (remove_handler s id) c (RForbidden (fst (fst (a_obs a))) (a_reward a) (a_status a)).
  Proof. intros Ha He. unfold Coord.h_start. rewrite Ha, He. reflexivity. Qed.

  (* the step of a registered, playing agent: counters, status, end flag, reward; a final result
     is parked at the rewards barrier, a non-final one is answered in the same segment *)
  Definition stepped_agent (s : state) (c : addr) (a : agent) (act : G) (v' : V) : agent :=
    let a1 := {| a_name := a_name a; a_role := a_role a; a_steps := S (a_steps a); a_req := a_req a; a_status := a_status a;
                 a_ended := a_ended a; a_view := a_view a; a_reward := a_reward a; a_rewarded := a_rewarded a; a_obs := a_obs a; a_traj := a_traj a |} in
    let st := next_status goal detect cfg a1 v' act in
    let others_playing := existsb (fun x => negb (N.eqb (fst x) c) && status_eqb (a_status (snd x)) SPlayingTO) (agents s) in
    {| a_name := a_name a; a_role := a_role a; a_steps := S (a_steps a); a_req := a_req a; a_status := st;
       a_ended := terminal st || negb (status_eqb st SPlayingTO || others_playing);
       a_view := v'; a_reward := r_step cfg; a_rewarded := a_rewarded a; a_obs := a_obs a; a_traj := a_traj a |}.

  Theorem game_step_eq (s : state) id c act a w' v' :
    alookup c (agents s) = Some a -> a_ended a = false -> wstep (world s) (a_view a) act = (w', v') ->
    let a2 := stepped_agent s c a act v' in
    let ags := aupdate c (fun _ => a2) (agents s) in
    let s1 := set_agents (set_world s w') ags in
    let s2 := if all_ended ags then set_ev_end s1 true else s1 in
    h_start s id c (MGame act true) =
      if a_ended a2 then park s2 id (PRewards false act v') else game_finish s2 id c act v'.
  Proof. intros Ha He Ew. cbv zeta. unfold Coord.h_start. rewrite Ha, He, Ew. reflexivity. Qed.

  (* the reply of the game handler: the stored view, reward and end flag; the same triple goes
     into the trajectory *)
  Theorem game_finish_eq (s : state) id c act v' a :
    alookup c (agents s) = Some a ->
    @game_finish V W G s id c act v' =
    respond (remove_handler (set_agents s (aupdate c (fun _ => a_set_obs (a_set_traj a (traj_add (a_traj a) act (a_reward a) v')) (a_view a, a_reward a, a_ended a)) (agents s))) id) c
            (ROk (a_view a) (a_reward a) (a_ended a) (if terminal (a_status a) then Some (a_status a) else None)).
  Proof. intros Ha. unfold game_finish. rewrite Ha. reflexivity. Qed.

  (* ---- C05/C06: the reward task ---- *)
  Definition final_bonus (a : agent) : Z :=
    match a_role a with
    | RBenign => 0%Z
    | _ => if status_eqb (a_status a) SSuccess then r_succ cfg else r_fail cfg
    end.

  (* the reward task acts only when every agent in the game has finished; then every agent not yet
     rewarded gets its bonus exactly once, a defender's reason becomes Success exactly when no
     attacker succeeded, and every handler waiting at the rewards barrier is released *)
  Theorem rewards_only_when_all_ended (s s' : state) :
    rewards_run s = Some s' -> all_ended (agents s) = false ->
    agents s' = agents s /\ handlers s' = handlers s /\ ev_end s' = false.
  Proof.
    unfold Coord.rewards_run. destruct (negb (ev_end s)); [discriminate|]. intros H Hn. rewrite Hn in H. simpl in H.
    injection H as <-. repeat split.
  Qed.

  Theorem rewards_effect (s s' : state) :
    rewards_run s = Some s' -> all_ended (agents s) = true ->
    let successful := existsb (fun x => role_eqb (a_role (snd x)) RAttacker && status_eqb (a_status (snd x)) SSuccess) (agents s) in
    agents s' = map (fun x => (fst x, reward_agent cfg successful (snd x))) (agents s) /\
    handlers s' = map release_rewards (handlers s) /\ ev_end s' = false /\ world s' = world s.
  Proof.
    unfold Coord.rewards_run. destruct (negb (ev_end s)); [discriminate|]. intros H Ha. rewrite Ha in H. simpl in H.
    injection H as <-. repeat split.
  Qed.

  Theorem reward_agent_once successful (a : agent) :
    a_rewarded a = true -> reward_agent cfg successful a = a.
  Proof. intros H. unfold reward_agent. rewrite H. reflexivity. Qed.

  Theorem reward_agent_bonus successful (a : agent) :
    a_rewarded a = false -> a_ended a = true -> a_role a <> RBenign ->
    let a' := reward_agent cfg successful a in
    a_rewarded a' = true /\ a_reward a' = (a_reward a + final_bonus a')%Z /\
    (a_role a = RAttacker -> a_status a' = a_status a) /\
    (a_role a = RDefender -> (a_status a' = SSuccess <-> successful = false)).
  Proof.
    intros Hr He Hb. unfold reward_agent, final_bonus. rewrite Hr, He. simpl.
    destruct (a_role a) eqn:Er; simpl; rewrite ?Er; simpl.
    - repeat split; try reflexivity; try discriminate.
    - destruct successful; simpl; repeat split; try reflexivity; try discriminate; try congruence.
    - congruence.
  Qed.

  (* ---- C07: the reset task ---- *)
  Theorem reset_only_when_all_asked (s s' : state) :
    reset_run s = Some s' -> ((match agents s with [] => false | _ => true end) && all_req (agents s)) = false ->
    agents s' = agents s /\ world s' = world s /\ handlers s' = handlers s /\ files s' = files s /\ ev_reset s' = false.
  Proof.
    unfold Coord.reset_run. destruct (negb (ev_reset s)); [discriminate|]. intros H Hn. rewrite Hn in H. simpl in H.
    injection H as <-. repeat split.
  Qed.

  (* an agent that has not asked is never reset underneath it *)
  Theorem reset_voluntary (s s' : state) c a :
    reset_run s = Some s' -> alookup c (agents s) = Some a -> a_req a = false -> alookup c (agents s') = Some a.
  Proof.
    intros H Ha Hr. assert (Hn : ((match agents s with [] => false | _ => true end) && all_req (agents s)) = false).
    { apply andb_false_iff. right. unfold all_req. apply not_true_is_false. intros Hall. rewrite forallb_forall in Hall.
      specialize (Hall (c, a) (alookup_in c _ a Ha)). simpl in Hall. congruence. }
    destruct (reset_only_when_all_asked s s' H Hn) as (-> & _). exact Ha.
  Qed.

  (* what the reset does to one agent *)
  Theorem reset_one_effect w done fl (x : addr * agent) :
    exists w' v, winit w (a_role (snd x)) = (w', v) /\
      @reset_one V W G winit cfg (w, done, fl) x =
      (w', done ++ [(fst x, {| a_name := a_name (snd x); a_role := a_role (snd x); a_steps := 0; a_req := false;
                              a_status := init_status (a_role (snd x)); a_ended := false; a_view := v; a_reward := 0%Z;
                              a_rewarded := false; a_obs := (v, 0%Z, false); a_traj := a_traj (snd x) |})],
       if save_traj cfg then fl ++ [(a_name (snd x), a_role (snd x), a_traj (snd x))] else fl).
  Proof. unfold reset_one. destruct (winit w (a_role (snd x))) as [w' v]. eauto. Qed.

  (* RESET_DONE carries the observation stored by the reset, the finished trajectory iff requested,
     and the trajectory is restarted from the new initial view *)
  Theorem reset_done_content (s : state) id c want a :
    alookup c (agents s) = Some a ->
    @reset_finish V W G s id c want =
    respond (remove_handler (set_agents s (aupdate c (fun _ => a_set_traj a (traj_start (a_view a))) (agents s))) id) c
            (RResetDone (a_obs a) (if want then Some (a_traj a) else None)).
  Proof. intros Ha. unfold reset_finish. rewrite Ha. reflexivity. Qed.

  (* ---- C10: what a departure does ---- *)
  Theorem quit_effect (s : state) id c :
    NoDup (map fst (agents s)) ->
    let s' := h_start s id c MQuit in
    alookup c (agents s') = None /\
    (forall k, k <> c -> alookup k (agents s') = alookup k (agents s)) /\
    world s' = world s /\ files s' = files s.
  Proof.
    intros Hnd. cbv zeta. unfold Coord.h_start. simpl. unfold remove_agent.
    destruct (alookup c (agents s)) eqn:Ha.
    - destruct (_ && _); destruct (all_ended _); simpl;
        (split; [apply alookup_aremove_eq, Hnd|]); (split; [intros k Hne; apply alookup_aremove_ne; congruence|]); split; reflexivity.
    - simpl. split; [exact Ha|]. split; [reflexivity|]. split; reflexivity.
  Qed.

  (* every way a connection ends releases its slot exactly once *)
  Theorem cleanup_releases (s : state) c : served (cleanup s c) = served s - 1.
  Proof. reflexivity. Qed.

  (* ---- C18: a connection beyond the limit is closed at once and changes nothing else ---- *)
  Theorem reject_over_limit (s : state) c cn :
    alookup c (conns s) = Some cn -> c_state cn = CNew -> required cfg <= served s ->
    conn_run cfg s c = Some (set_conns s (aupdate c (fun x => c_set_state x CClosed) (conns s))).
  Proof.
    intros Hl Hst Hle. unfold conn_run. rewrite Hl. unfold conn_runnable. rewrite Hst. simpl.
    apply Nat.leb_le in Hle. rewrite Hle. reflexivity.
  Qed.

  Theorem admit_under_limit (s : state) c cn :
    alookup c (conns s) = Some cn -> c_state cn = CNew -> served s < required cfg ->
    exists s', conn_run cfg s c = Some s' /\ served s' <= S (served s) /\
      (forall cn', alookup c (conns s') = Some cn' -> c_state cn' <> CNew).
  Proof.
    intros Hl Hst Hlt. unfold conn_run. rewrite Hl. unfold conn_runnable. rewrite Hst. simpl.
    apply Nat.leb_gt in Hlt. rewrite Hlt. eexists. split; [reflexivity|].
    set (cn' := c_set_state cn CReading).
    unfold conn_read. destruct (c_rerr cn'); [|destruct (c_inbox cn') as [[m|]|]; [| |destruct (c_eof cn')]];
      unfold leave, cleanup; simpl; (split; [lia|]); intros cn2; rewrite ?aupdate_aupdate, alookup_aupdate_eq, Hl; simpl; intros [= <-]; discriminate.
  Qed.
End Direct.
