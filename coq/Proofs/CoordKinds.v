(* The answer fits the question.  A handler task puts at most one item on a response queue per step, always on the queue of
   the connection it works for, and the item fits the message the handler was spawned for: JoinGame is answered by CREATED
   or BAD_REQUEST, ResetGame by RESET_DONE or BAD_REQUEST, a game action by OK, FORBIDDEN or BAD_REQUEST, QuitGame by
   closing; the dispatcher itself answers only unparsable messages, with BAD_REQUEST, to their sender.  Together with the
   alternation invariant (C01_alternation) every request gets exactly one answer of a fitting kind. *)
From Coq Require Import ZArith NArith List Bool Arith Lia.
From NSG Require Import Model.Coord Proofs.CoordBase Proofs.CoordInv.
Import ListNotations.

Section Kinds.
  Context {V W G : Type}.
  Variable wstep : W -> V -> G -> W * V.
  Variable wreset : W -> W.
  Variable winit : W -> role -> W * V.
  Variable goal : role -> V -> bool.
  Variable detect : list G -> G -> bool.
  Variable cfg : config.

  Notation state := (@state V W G).
  Notation handler := (@handler V G).
  Notation msg := (@msg G).
  Notation qitem := (@qitem V G).
  Notation hpc := (@hpc V G).
  Notation h_start := (@h_start V W G wstep winit goal detect cfg).
  Notation h_wake := (@h_wake V W G wstep winit goal detect cfg).

  Inductive qkind := QJoin | QReset | QGame | QQuit | QGarbage.
  Definition kind_of_msg (m : msg) : qkind :=
    match m with MGarbage => QGarbage | MJoin _ => QJoin | MQuit => QQuit | MReset _ => QReset | MGame _ _ => QGame end.
  Definition kind_of_pc (pc : hpc) : qkind :=
    match pc with
    | PSpawned m => kind_of_msg m
    | PJoinStart _ _ => QJoin
    | PRewards _ _ _ => QGame
    | PResetDone _ _ | PResetStart _ _ => QReset
    end.
  Definition fits (k : qkind) (q : qitem) : Prop :=
    match k, q with
    | QJoin, QResp (RCreated _) | QJoin, QResp RBad => True
    | QReset, QResp (RResetDone _ _) | QReset, QResp RBad => True
    | QGame, QResp (ROk _ _ _ _) | QGame, QResp (RForbidden _ _ _) | QGame, QResp RBad => True
    | QQuit, QClose => True
    | QGarbage, QResp RBad => True
    | _, _ => False
    end.

  (* the connection table after putting q on the queue of c *)
  Definition conns_put (s : state) (c : addr) (q : qitem) :=
    aupdate c (fun cn => if has_queue cn then c_set_queue cn (c_queue cn ++ [q]) else cn) (conns s).
  Definition one_answer (s s' : state) (c : addr) (k : qkind) : Prop :=
    conns s' = conns s \/ exists q, fits k q /\ conns s' = conns_put s c q.

  Lemma put_conns (s0 s : state) c q : conns s0 = conns s -> conns (put s0 c q) = conns_put s c q.
  Proof. intros E. unfold put, conns_put. cbn [conns set_conns]. rewrite E. reflexivity. Qed.

  Lemma game_finish_answer (s0 s : state) id c act v' : conns s0 = conns s -> one_answer s (@game_finish V W G s0 id c act v') c QGame.
  Proof.
    intros E. unfold game_finish. destruct (alookup c (agents s0)) as [a|]; [|left; exact E].
    right. eexists. split; [|unfold respond; apply put_conns; exact E]. exact I.
  Qed.
  Lemma reset_finish_answer (s : state) id c want : one_answer s (@reset_finish V W G s id c want) c QReset.
  Proof.
    unfold reset_finish. destruct (alookup c (agents s)) as [a|]; [|left; reflexivity].
    right. eexists. split; [|unfold respond; apply put_conns; reflexivity]. exact I.
  Qed.

  Theorem h_start_answer (s : state) id c m : one_answer s (h_start s id c m) c (kind_of_msg m).
  Proof.
    assert (Hbad : forall s0 : state, conns s0 = conns s -> forall k, fits k (QResp RBad) ->
              one_answer s (respond (remove_handler s0 id) c RBad) c k).
    { intros s0 E k Hk. right. exists (QResp RBad). split; [exact Hk | unfold respond; apply put_conns; exact E]. }
    destruct m as [|info| |want|act valid]; unfold Coord.h_start; cbn [kind_of_msg].
    - left. reflexivity.
    - destruct (alookup c (agents s)); [apply Hbad; [reflexivity | exact I]|].
      destruct info as [[name [r|]]|]; try (apply Hbad; [reflexivity | exact I]).
      destruct (negb (allowed cfg r)); [apply Hbad; [reflexivity | exact I]|].
      destruct (winit (world s) r) as [w' v]. cbv zeta.
      destruct (Nat.eqb _ _).
      + cbn [ev_start set_start_event set_handlers set_ev_start]. right. exists (QResp (RCreated v)). split; [exact I|].
        unfold respond. apply put_conns. reflexivity.
      + destruct (ev_start _); [|left; reflexivity].
        right. exists (QResp (RCreated v)). split; [exact I|]. unfold respond. apply put_conns. reflexivity.
    - right. exists QClose. split; [exact I|]. apply put_conns.
      unfold remove_agent. destruct (alookup c (agents s)); [|reflexivity]. destruct (_ && _); destruct (all_ended _); reflexivity.
    - destruct (alookup c (agents s)); [|apply Hbad; [reflexivity | exact I]]. cbv zeta. left. destruct (all_req _); reflexivity.
    - destruct (alookup c (agents s)) as [a|]; [|apply Hbad; [reflexivity | exact I]].
      destruct (negb valid); [apply Hbad; [reflexivity | exact I]|].
      destruct (a_ended a).
      + right. eexists. split; [|unfold respond; apply put_conns; reflexivity]. exact I.
      + destruct (wstep (world s) (a_view a) act) as [w' v']. cbv zeta.
        match goal with |- context [all_ended ?AGS] => set (ags := AGS) end.
        assert (Hgoal : forall s2 : state, conns s2 = conns s -> forall b : bool,
                  one_answer s (if b then park s2 id (PRewards false act v') else @game_finish V W G s2 id c act v') c QGame).
        { intros s2 E b. destruct b; [left; exact E | apply game_finish_answer, E]. }
        destruct (all_ended ags); apply Hgoal; reflexivity.
  Qed.

  Theorem h_wake_answer (s s' : state) (h : handler) :
    h_wake s h = Some s' -> one_answer s s' (h_addr h) (kind_of_pc (h_pc h)).
  Proof.
    unfold Coord.h_wake. destruct (h_pc h) as [m|rel v|rel act v'|rel want|rel want]; cbn [kind_of_pc].
    - intros [= <-]. apply h_start_answer.
    - destruct rel; [|discriminate]. intros [= <-]. right. exists (QResp (RCreated v)). split; [exact I|]. unfold respond. apply put_conns. reflexivity.
    - destruct rel; [|discriminate]. intros [= <-]. apply game_finish_answer. reflexivity.
    - destruct rel; [|discriminate]. destruct (ev_start s); intros [= <-]; [apply reset_finish_answer | left; reflexivity].
    - destruct rel; [|discriminate]. intros [= <-]. apply reset_finish_answer.
  Qed.

  (* the dispatcher answers only unparsable messages: BAD_REQUEST to the sender *)
  Theorem dispatch1_answer (s : state) (x : addr * msg) :
    match snd x with
    | MGarbage => conns (dispatch1 s x) = conns_put s (fst x) (QResp RBad)
    | _ => conns (dispatch1 s x) = conns s
    end.
  Proof. unfold dispatch1. destruct (snd x); reflexivity. Qed.

  (* the wait state of a handler never changes what it will answer to *)
  Lemma kind_release_start (h : handler) : kind_of_pc (h_pc (release_start h)) = kind_of_pc (h_pc h).
  Proof. destruct h as [i a pc]; destruct pc; reflexivity. Qed.
  Lemma kind_release_rewards (h : handler) : kind_of_pc (h_pc (release_rewards h)) = kind_of_pc (h_pc h).
  Proof. destruct h as [i a pc]; destruct pc; reflexivity. Qed.
  Lemma kind_release_reset (h : handler) : kind_of_pc (h_pc (release_reset h)) = kind_of_pc (h_pc h).
  Proof. destruct h as [i a pc]; destruct pc; reflexivity. Qed.

  (* a handler that is held at a barrier keeps the kind of its request: what it will eventually put fits the question *)
  Lemma in_park (s : state) id pc (h' : handler) : In h' (handlers (park s id pc)) -> h_id h' = id -> h_pc h' = pc.
  Proof.
    unfold park. cbn [handlers set_handlers]. intros Hin Hid. apply in_map_iff in Hin as (x & <- & _).
    destruct (Nat.eqb (h_id x) id) eqn:E; [reflexivity|]. apply Nat.eqb_neq in E. simpl in Hid. contradiction.
  Qed.
  Lemma in_removed (hs : list handler) id (h' : handler) : In h' (filter (fun h => negb (Nat.eqb (h_id h) id)) hs) -> h_id h' <> id.
  Proof. intros Hin. apply filter_In in Hin as [_ Hn]. apply negb_true_iff, Nat.eqb_neq in Hn. exact Hn. Qed.

  Lemma game_finish_removed (s : state) id c act v' (h' : handler) : In h' (handlers (@game_finish V W G s id c act v')) -> h_id h' <> id.
  Proof. unfold game_finish. destruct (alookup c (agents s)); cbn [handlers put respond set_conns remove_handler set_handlers set_agents]; apply in_removed. Qed.
  Lemma reset_finish_removed (s : state) id c want (h' : handler) : In h' (handlers (@reset_finish V W G s id c want)) -> h_id h' <> id.
  Proof. unfold reset_finish. destruct (alookup c (agents s)); cbn [handlers put respond set_conns remove_handler set_handlers set_agents]; apply in_removed. Qed.

  Theorem h_start_keeps_kind (s : state) id c m (h' : handler) :
    In h' (handlers (h_start s id c m)) -> h_id h' = id -> kind_of_pc (h_pc h') = kind_of_msg m.
  Proof.
    assert (Hrm : forall s0 : state, forall q, In h' (handlers (put (remove_handler s0 id) c q)) -> h_id h' = id -> kind_of_pc (h_pc h') = kind_of_msg m).
    { intros s0 q Hin Hid. exfalso. cbn [handlers put set_conns remove_handler set_handlers] in Hin. apply in_removed in Hin. contradiction. }
    destruct m as [|info| |want|act valid]; unfold Coord.h_start.
    - intros Hin Hid. exfalso. cbn [handlers remove_handler set_handlers] in Hin. apply in_removed in Hin. contradiction.
    - destruct (alookup c (agents s)); [apply Hrm|].
      destruct info as [[name [r|]]|]; try apply Hrm.
      destruct (negb (allowed cfg r)); [apply Hrm|].
      destruct (winit (world s) r) as [w' v]. cbv zeta.
      destruct (Nat.eqb _ _); [cbn [ev_start set_start_event set_handlers set_ev_start]; apply Hrm|].
      destruct (ev_start _); [apply Hrm|]. intros Hin Hid. rewrite (in_park _ _ _ h' Hin Hid). reflexivity.
    - apply Hrm.
    - destruct (alookup c (agents s)); [|apply Hrm]. cbv zeta.
      destruct (all_req _); intros Hin Hid; rewrite (in_park _ _ _ h' Hin Hid); reflexivity.
    - destruct (alookup c (agents s)) as [a|]; [|apply Hrm].
      destruct (negb valid); [apply Hrm|]. destruct (a_ended a); [apply Hrm|].
      destruct (wstep (world s) (a_view a) act) as [w' v']. cbv zeta.
      match goal with |- context [all_ended ?AGS] => set (ags := AGS) end.
      assert (Hgoal : forall (s2 : state) (b : bool),
                In h' (handlers (if b then park s2 id (PRewards false act v') else @game_finish V W G s2 id c act v')) -> h_id h' = id ->
                kind_of_pc (h_pc h') = QGame).
      { intros s2 b Hin Hid. destruct b; [rewrite (in_park _ _ _ h' Hin Hid); reflexivity|].
        exfalso. apply game_finish_removed in Hin. contradiction. }
      destruct (all_ended ags); apply Hgoal.
  Qed.

  Theorem h_wake_keeps_kind (s s' : state) (h h' : handler) :
    h_wake s h = Some s' -> In h' (handlers s') -> h_id h' = h_id h -> kind_of_pc (h_pc h') = kind_of_pc (h_pc h).
  Proof.
    unfold Coord.h_wake. destruct (h_pc h) as [m|rel v|rel act v'|rel want|rel want]; cbn [kind_of_pc].
    - intros [= <-]. apply h_start_keeps_kind.
    - destruct rel; [|discriminate]. intros [= <-] Hin Hid. exfalso. cbn [handlers put respond set_conns remove_handler set_handlers] in Hin.
      apply in_removed in Hin. contradiction.
    - destruct rel; [|discriminate]. intros [= <-] Hin Hid. exfalso. apply game_finish_removed in Hin. contradiction.
    - destruct rel; [|discriminate]. destruct (ev_start s); intros [= <-] Hin Hid.
      + exfalso. apply reset_finish_removed in Hin. contradiction.
      + rewrite (in_park _ _ _ h' Hin Hid). reflexivity.
    - destruct rel; [|discriminate]. intros [= <-] Hin Hid. exfalso. apply reset_finish_removed in Hin. contradiction.
  Qed.
End Kinds.
