(* Which texts Python's ipaddress.ip_address accepts as IPv4: four decimal octets 0..255
   separated by dots, no leading zeros, no other characters.  (IPv6 text is outside the model.) *)
From Coq Require Import String Ascii ZArith List Bool.
Import ListNotations.
Open Scope string_scope.

Definition is_digit (c : ascii) : bool :=
  let n := nat_of_ascii c in Nat.leb 48 n && Nat.leb n 57.

Fixpoint split_dots (s : string) (cur : string) : list string :=
  match s with
  | EmptyString => [cur]
  | String c tl => if Ascii.eqb c "."%char then cur :: split_dots tl "" else split_dots tl (cur ++ String c "")
  end.

Fixpoint all_digits (s : string) : bool :=
  match s with EmptyString => true | String c tl => is_digit c && all_digits tl end.

Fixpoint dec_value (s : string) (acc : nat) : nat :=
  match s with EmptyString => acc | String c tl => dec_value tl (10 * acc + (nat_of_ascii c - 48)) end.

Definition octet_ok (s : string) : bool :=
  match s with
  | EmptyString => false
  | String c tl =>
      all_digits s && Nat.leb (String.length s) 3 && Nat.leb (dec_value s 0) 255
      && (match tl with EmptyString => true | _ => negb (Ascii.eqb c "0"%char) end)
  end.

Definition ipv4_ok (s : string) : bool :=
  let parts := split_dots s "" in
  Nat.eqb (List.length parts) 4 && forallb octet_ok parts.
