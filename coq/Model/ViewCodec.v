(* M1: views on the wire - GameState.as_dict / as_json / from_dict / from_json and
   utils.observation_as_dict.  Views are finite sets and finite maps of finite sets (std++), so
   equality of views is extensional equality of their six parts.  No proofs in this file. *)
From stdpp Require Import gmap strings.
From Coq Require Import ZArith.
From NSG Require Import Model.Json Model.Ipv4Text Model.Codec.
Open Scope string_scope.

Record view := {
  v_ctrl   : gset ip;                    (* controlled_hosts *)
  v_hosts  : gset ip;                    (* known_hosts *)
  v_svcs   : gmap ip (gset svc);         (* known_services *)
  v_data   : gmap ip (gset data);        (* known_data *)
  v_nets   : gset net;                   (* known_networks *)
  v_blocks : gmap ip (gset ip);          (* known_blocks *)
}.

(* ---- GameState.as_dict; sets are written in some iteration order: here `elements` ---- *)
Definition enc_set {A} `{Countable A} (f : A -> json) (s : gset A) : json := JArr (f <$> elements s).
Definition enc_map {A} `{Countable A} (f : A -> json) (m : gmap ip (gset A)) : json :=
  JObj ((fun kv => (fst kv, enc_set f (snd kv))) <$> map_to_list m).

Definition enc_view (v : view) : json :=
  JObj [("known_networks", enc_set enc_net (v_nets v));
        ("known_hosts", enc_set enc_ip (v_hosts v));
        ("controlled_hosts", enc_set enc_ip (v_ctrl v));
        ("known_services", enc_map enc_svc (v_svcs v));
        ("known_data", enc_map enc_data (v_data v));
        ("known_blocks", enc_map enc_ip (v_blocks v))].

(* ---- element decoders of GameState.from_dict: subscript access, extra keys ignored ---- *)
Definition vdec_ip (j : json) : option ip :=            (* IP(x["ip"]) *)
  match j with
  | JObj o => match jstr (jget "ip" o) with
              | Some s => if ipv4_ok s then Some s else None
              | None => None
              end
  | _ => None
  end.
Definition vdec_net (j : json) : option net :=          (* Network(x["ip"], x["mask"]) *)
  match j with
  | JObj o => match jstr (jget "ip" o), jnum (jget "mask" o) with
              | Some s, Some m => Some (s, m)
              | _, _ => None
              end
  | _ => None
  end.
Definition vdec_svc (j : json) : option svc :=          (* Service(s["name"], s["type"], s["version"], s["is_local"]) *)
  match j with
  | JObj o => match jstr (jget "name" o), jstr (jget "type" o), jstr (jget "version" o), jbool (jget "is_local" o) with
              | Some n, Some t, Some v, Some l => Some (n, t, v, l)
              | _, _, _, _ => None
              end
  | _ => None
  end.
Definition vdec_data (j : json) : option data :=        (* Data(v["owner"], v["id"], v.get("size", 0), v.get("type", "")) *)
  match j with
  | JObj o => match jstr (jget "owner" o), jstr (jget "id" o), dflt (jget "size" o) 0%Z jnum, dflt (jget "type" o) "" jstr with
              | Some ow, Some i, Some sz, Some t => Some (ow, i, sz, t)
              | _, _, _, _ => None
              end
  | _ => None
  end.

Definition dec_set {A} `{Countable A} (f : json -> option A) (j : option json) : option (gset A) :=
  match j with
  | Some (JArr l) => match mapM f l with Some xs => Some (list_to_set xs) | None => None end
  | _ => None
  end.

Definition dec_entry {A} `{Countable A} (f : json -> option A) (kv : string * json) : option (ip * gset A) :=
  if ipv4_ok (fst kv) then                               (* IP(k) validates the key *)
    match dec_set f (Some (snd kv)) with Some s => Some (fst kv, s) | None => None end
  else None.

(* a dict comprehension: later bindings of the same key win *)
Definition dec_map {A} `{Countable A} (f : json -> option A) (j : option json) : option (gmap ip (gset A)) :=
  match j with
  | Some (JObj o) => match mapM (dec_entry f) o with
                     | Some kvs => Some (list_to_map (reverse kvs))
                     | None => None
                     end
  | _ => None
  end.

(* GameState.from_dict (known_blocks may be absent) / from_json (known_blocks required) *)
Definition dec_view_gen (blocks_optional : bool) (j : json) : option view :=
  match j with
  | JObj o =>
      match dec_set vdec_net (jget "known_networks" o), dec_set vdec_ip (jget "known_hosts" o),
            dec_set vdec_ip (jget "controlled_hosts" o), dec_map vdec_svc (jget "known_services" o),
            dec_map vdec_data (jget "known_data" o),
            (match jget "known_blocks" o with
             | None => if blocks_optional then Some ∅ else None
             | b => dec_map vdec_ip b
             end) with
      | Some n, Some h, Some c, Some s, Some d, Some b =>
          Some {| v_ctrl := c; v_hosts := h; v_svcs := s; v_data := d; v_nets := n; v_blocks := b |}
      | _, _, _, _, _, _ => None
      end
  | _ => None
  end.
Definition dec_view_dict := dec_view_gen true.
Definition dec_view_json := dec_view_gen false.

(* every address in the view is a valid IPv4 text (IP objects cannot be built otherwise) *)
Definition set_ok (s : gset ip) : Prop := forall i, i ∈ s -> ipv4_ok i = true.
Definition keys_ok {A} (m : gmap ip A) : Prop := forall i x, m !! i = Some x -> ipv4_ok i = true.
Definition view_ok (v : view) : Prop :=
  set_ok (v_ctrl v) /\ set_ok (v_hosts v) /\ keys_ok (v_svcs v) /\ keys_ok (v_data v) /\
  keys_ok (v_blocks v) /\ (forall i s, v_blocks v !! i = Some s -> set_ok s).

(* ---- observation_as_dict and the response envelope ---- *)
Definition enc_obs (v : view) (reward : json) (ended : bool) (info : json) : json :=
  JObj [("state", enc_view v); ("reward", reward); ("end", JBool ended); ("info", info)].
