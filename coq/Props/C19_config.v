(* C19, from the configuration TEXT TREE to the initial view: what the task configuration lists for a role's start
   position is in that role's initial view.  Model/ConfigParts.v (the section readers of utils.ConfigParser, tied to the
   code by the section-reader correspondence) composed with Model/Load.v init_view (tied by the initial-view
   correspondence).  Statements only; proofs in Proofs/ConfigPartsFacts.v and Proofs/InitViewFacts.v. *)
From stdpp Require Import gmap.
From Coq Require Import ZArith NArith.
From Coq Require Import String List Bool.
From NSG Require Import Model.World Model.Load Proofs.InitViewFacts Model.Json Model.Ipv4Text Model.Config Model.ConfigParts
  Proofs.ConfigFacts Proofs.ConfigPartsFacts.
Import ListNotations.

Section ConfigToView.
  (* the value of an address text (any function: the statement does not depend on how texts become addresses) *)
  Variable addr : string -> ip.

  Definition ctrl_of (h : host_item) : start_host :=
    match h with HAddr s => Load.SHost (addr s) | HRandom => Load.SRandom | HAllLocal => Load.SAllLocal end.
  Definition hosts_of (l : list host_item) : list ip :=
    flat_map (fun h => match h with HAddr s => [addr s] | _ => [] end) l.
  (* the start position handed to the world: networks, known hosts and controlled hosts from the parsed part; services and
     data (interned by the caller) are not constrained here *)
  Definition to_sp (p : part) (sv : list (ip * list svc)) (dt : list (ip * list data)) : start_pos :=
    {| sp_nets := map (fun hm => (addr (fst hm), Z.to_N (snd hm))) (p_nets p);
       sp_hosts := hosts_of (p_hosts p); sp_ctrl := map ctrl_of (p_ctrl p); sp_svcs := sv; sp_data := dt |}.

  Theorem C19_config_to_view : forall cfg role p w sv dt oracle,
    start_position cfg role = Ok p ->
    let v := init_view w (to_sp p sv dt) oracle in
    (* every valid address listed under controlled_hosts is controlled and known *)
    (forall l s, listed_at cfg role "start_position" "controlled_hosts" l -> In (JStr s) l -> ipv4_ok s = true ->
                 addr s ∈ v_ctrl v /\ addr s ∈ v_hosts v) /\
    (* 'all_local' listed there: every address of a private network is controlled *)
    (forall l i, listed_at cfg role "start_position" "controlled_hosts" l -> In (JStr "all_local") l -> i ∈ all_local w -> i ∈ v_ctrl v) /\
    (* every valid address listed under known_hosts is known *)
    (forall l s, listed_at cfg role "start_position" "known_hosts" l -> In (JStr s) l -> ipv4_ok s = true -> addr s ∈ v_hosts v) /\
    (* every well-formed network a.b.c.d/m listed under known_networks is known *)
    (forall l s h m, listed_at cfg role "start_position" "known_networks" l -> In (JStr s) l -> split_slash s "" = [h; m] ->
                     ipv4_ok h = true -> mask_ok m = true -> (addr h, N.of_nat (dec_value m 0)) ∈ v_nets v) /\
    (* a key that is absent, null or empty contributes nothing; no blocks are known at the start *)
    v_blocks v = ∅.
  Proof.
    intros cfg role p w sv dt oracle Hp v.
    destruct (read_part_fields cfg role "start_position" false p Hp) as (Hn & Hh & Hc & _).
    destruct (init_view_contains w (to_sp p sv dt) oracle) as (Vn & Vh & Vc & _ & Vb).
    split; [|split; [|split; [|split]]].
    - intros l s Hl Hs Hok. apply Vc. cbn [sp_ctrl to_sp].
      destruct (read_hosts_listed cfg role "start_position" "controlled_hosts" l (p_ctrl p) Hl Hc) as (H1 & _).
      apply (in_map ctrl_of _ (HAddr s)), H1; assumption.
    - intros l i Hl Hs Hi. unfold v, init_view. cbn [v_ctrl]. apply resolve_ctrl_all_local; [|exact Hi]. cbn [sp_ctrl to_sp].
      destruct (read_hosts_listed cfg role "start_position" "controlled_hosts" l (p_ctrl p) Hl Hc) as (_ & _ & H3).
      apply (in_map ctrl_of _ HAllLocal), H3, Hs.
    - intros l s Hl Hs Hok. apply Vh. cbn [sp_hosts to_sp]. unfold hosts_of. apply in_flat_map. exists (HAddr s).
      destruct (read_hosts_listed cfg role "start_position" "known_hosts" l (p_hosts p) Hl Hh) as (H1 & _).
      split; [apply H1; assumption | left; reflexivity].
    - intros l s h m Hl Hs Hsp Hok Hm. apply Vn. cbn [sp_nets to_sp].
      pose proof (read_networks_listed cfg role "start_position" l (p_nets p) s h m Hl Hn Hs Hsp Hok Hm) as Hin.
      apply (in_map (fun hm => (addr (fst hm), Z.to_N (snd hm)))) in Hin. cbn [fst snd] in Hin.
      rewrite <- nat_N_Z, N2Z.id in Hin. exact Hin.
    - exact Vb.
  Qed.
End ConfigToView.

(* what is read is what is listed - nothing else (no address, wildcard or network appears in the parsed part unless the
   configuration lists it), absent keys give empty parts, a missing role or part makes the reader raise KeyError *)
Theorem C19_hosts_listed : forall cfg role part key l r,
  listed_at cfg role part key l -> read_hosts cfg role part key = Ok r ->
  (forall s, In (JStr s) l -> ipv4_ok s = true -> In (HAddr s) r) /\
  (In (JStr "random") l -> In HRandom r) /\ (In (JStr "all_local") l -> In HAllLocal r).
Proof. exact read_hosts_listed. Qed.
Theorem C19_hosts_only : forall cfg role part key l r,
  listed_at cfg role part key l -> read_hosts cfg role part key = Ok r ->
  (forall s, In (HAddr s) r -> In (JStr s) l /\ ipv4_ok s = true) /\
  (In HRandom r -> In (JStr "random") l) /\ (In HAllLocal r -> In (JStr "all_local") l).
Proof. exact read_hosts_only. Qed.
Theorem C19_networks_only : forall cfg role part l r h z,
  listed_at cfg role part "known_networks" l -> read_networks cfg role part = Ok r -> In (h, z) r ->
  exists s m, In (JStr s) l /\ split_slash s "" = [h; m] /\ ipv4_ok h = true /\ mask_ok m = true /\ z = Z.of_nat (dec_value m 0).
Proof. exact read_networks_only. Qed.
Theorem C19_absent_parts_empty : forall cfg role part,
  (forall key, section_value cfg role part key = Ok None -> read_hosts cfg role part key = Ok []) /\
  (section_value cfg role part "known_networks" = Ok None -> read_networks cfg role part = Ok []) /\
  (section_value cfg role part "known_data" = Ok None -> read_data cfg role part = Ok []).
Proof. intros. split; [intros key; apply read_hosts_absent | split; [apply read_networks_absent | apply read_data_absent]]. Qed.
Theorem C19_data_keys : forall items acc r,
  (forall kv, In kv items -> ipv4_ok (fst kv) = true) -> read_data_loop items acc = Ok r ->
  forall ip, In ip (map fst r) <-> In ip (map fst acc) \/ In ip (map fst items).
Proof. exact read_data_loop_keys. Qed.
Theorem C19_data_items : forall l acc ps,
  data_entry_of l (DItems acc) = Ok (DItems ps) ->
  forall p, In p ps <-> In p acc \/ exists j, In j l /\ datum_of j = Some (Some p).
Proof. exact data_entry_items. Qed.

(* non-vacuity: a configuration tree with a start position; the listed addresses, the wildcard and the network are read *)
Example C19_config_nonvacuous :
  let cfg := JObj [("coordinator", JObj [("agents", JObj [("Attacker", JObj [
      ("start_position", JObj [("known_networks", JArr [JStr "192.168.1.0/24"; JStr "nonsense"]);
                               ("known_hosts", JArr [JStr "192.168.1.2"; JStr "999.1.1.1"]);
                               ("controlled_hosts", JArr [JStr "213.47.23.195"; JStr "random"; JStr "all_local"]);
                               ("known_data", JObj [("213.47.23.195", JArr [JArr [JStr "User1"; JStr "Data"]])])]);
      ("goal", JObj [("known_blocks", JObj [("1.1.1.1", JStr "all_attackers")])])])])])]%string in
  listed_at cfg "Attacker" "start_position" "controlled_hosts" [JStr "213.47.23.195"; JStr "random"; JStr "all_local"]%string /\
  start_position cfg "Attacker"%string =
    Ok {| p_nets := [("192.168.1.0", 24%Z)]; p_hosts := [HAddr "192.168.1.2"];
          p_ctrl := [HAddr "213.47.23.195"; HRandom; HAllLocal]; p_svcs := [];
          p_data := [("213.47.23.195", DItems [("User1", "Data")])]; p_blocks := [] |}%string /\
  (exists p, win_conditions cfg "Attacker"%string = Ok p /\ p_blocks p = [("1.1.1.1", BAllAttackers)]%string) /\
  start_position cfg "Defender"%string = Raises "KeyError"%string.
Proof. vm_compute. repeat split; try reflexivity. eexists. split; reflexivity. Qed.

Print Assumptions C19_config_to_view.
Print Assumptions C19_hosts_listed.
Print Assumptions C19_hosts_only.
Print Assumptions C19_networks_only.
Print Assumptions C19_absent_parts_empty.
Print Assumptions C19_data_keys.
Print Assumptions C19_data_items.
