"""coordinator.py dispatcher and connection-handler shapes -> coq/Gen/Dispatch.v (fail closed).

What is read: the arms of `match action.type` in run_game (which handler each action type is
routed to, what the default arm does), what happens when Action.from_json raises, and the
exception paths of AgentServer.handle_new_agent."""
import ast
from common import parse, write_if_changed, TranslationError, find_class, find_func, ATYPES


def coq_str(s):
    return '"' + s.replace('"', '""') + '"'


def read():
    src, tree = parse("AIDojoCoordinator/coordinator.py")
    gc = find_class(tree, "GameCoordinator")
    rg = find_func(gc, "run_game")
    out = {}
    m = [n for n in ast.walk(rg) if isinstance(n, ast.Match)]
    if len(m) != 1 or ast.unparse(m[0].subject) != "action.type":
        raise TranslationError("run_game: expected exactly one `match action.type`")
    arms = []
    default = None
    for case in m[0].cases:
        pat = case.pattern
        if isinstance(pat, ast.MatchOr):
            pats = pat.patterns
        else:
            pats = [pat]
        if len(pats) == 1 and isinstance(pats[0], ast.MatchAs) and pats[0].pattern is None:
            calls = [ast.unparse(n.func) for n in ast.walk(ast.Module(body=case.body, type_ignores=[])) if isinstance(n, ast.Call)]
            if "self._spawn_task" in calls:
                raise TranslationError("run_game: the default arm spawns a task")
            default = "reply_bad_request" if "self._respond_bad_request" in calls else "drop"
            continue
        names = []
        for p in pats:
            if not (isinstance(p, ast.MatchValue) and isinstance(p.value, ast.Attribute) and ast.unparse(p.value.value) == "ActionType"):
                raise TranslationError("run_game: case pattern is not ActionType.<member>")
            names.append(p.value.attr)
        spawned = [n for n in ast.walk(ast.Module(body=case.body, type_ignores=[])) if isinstance(n, ast.Call) and ast.unparse(n.func) == "self._spawn_task"]
        if len(spawned) != 1:
            raise TranslationError(f"run_game: arm {names} does not spawn exactly one task")
        handler = ast.unparse(spawned[0].args[0])
        passes_action = any(ast.unparse(a) == "action" for a in spawned[0].args[1:])
        passes_addr = any(ast.unparse(a) == "agent_addr" for a in spawned[0].args[1:])
        for nm in names:
            arms.append((nm, handler, passes_addr, passes_action))
    out["arms"] = arms
    out["default"] = default
    # the parse-failure path: try: action = Action.from_json(message) except Exception: ... respond; continue
    tries = [n for n in ast.walk(rg) if isinstance(n, ast.Try)]
    if len(tries) != 1:
        raise TranslationError("run_game: expected exactly one try statement")
    t = tries[0]
    if not any("Action.from_json(message)" in ast.unparse(s) for s in t.body):
        raise TranslationError("run_game: the try block does not parse the message")
    if len(t.handlers) != 1 or ast.unparse(t.handlers[0].type) != "Exception":
        raise TranslationError("run_game: parse errors are not caught by `except Exception`")
    hb = t.handlers[0].body
    responds = any(isinstance(n, ast.Call) and ast.unparse(n.func) == "self._respond_bad_request" for s in hb for n in ast.walk(s))
    continues = isinstance(hb[-1], ast.Continue)
    out["parse_failure"] = ("reply_bad_request" if responds else "silent") + ("_and_continue" if continues else "_and_fall_through")
    # _respond_bad_request must put a BAD_REQUEST message on the sender's queue
    rb = find_func(gc, "_respond_bad_request")
    txt = ast.unparse(rb)
    if "GameStatus.BAD_REQUEST" not in txt or "self._agent_response_queues[agent_addr].put" not in txt:
        raise TranslationError("_respond_bad_request does not put a BAD_REQUEST reply on the sender's queue")
    # connection handler: abnormal exits forward QuitGame
    srv = find_class(tree, "AgentServer")
    h = find_func(srv, "handle_new_agent")
    tr = [n for n in h.body if isinstance(n, ast.Try)]
    if len(tr) != 1:
        raise TranslationError("handle_new_agent: expected one try statement")
    exc = {ast.unparse(x.type): x for x in tr[0].handlers}
    if "Exception" not in exc:
        out["conn_failure"] = "not_forwarded"
    else:
        b = ast.unparse(ast.Module(body=exc["Exception"].body, type_ignores=[]))
        out["conn_failure"] = "forward_quit" if ("ActionType.QuitGame" in b and "self.actions_queue.put" in b) else "not_forwarded"
    fin = ast.unparse(ast.Module(body=tr[0].finalbody, type_ignores=[]))
    out["conn_cleanup"] = ("decrement" if "self.current_connections -= 1" in fin else "no_decrement") + \
                          ("_pop_queue" if "self.answers_queues.pop(addr)" in fin else "") + ("_close" if "writer.close()" in fin else "")
    adm = ast.unparse(h)
    out["admission"] = "reject_at_limit" if "if self.current_connections >= self.max_connections:" in adm else "unknown"
    ss = find_func(gc, "start_tcp_server")
    out["limit"] = "required_players" if "max_connections=self._min_required_players" in ast.unparse(ss) else "unknown"
    return out


def emit(d):
    L = ["(* GENERATED from AIDojoCoordinator/coordinator.py by harness/translate/dispatch.py; do not edit *)",
         "From Coq Require Import String List.", "From NSG Require Import Base.Prelude.", "Import ListNotations.", "Open Scope string_scope.", ""]
    L.append("Definition gen_dispatch_arms : list (atype * string * bool * bool) := [" +
             "; ".join(f"({n}, {coq_str(h)}, {'true' if a else 'false'}, {'true' if b else 'false'})" for n, h, a, b in d["arms"]) + "].")
    for k in ("default", "parse_failure", "conn_failure", "conn_cleanup", "admission", "limit"):
        L.append(f"Definition gen_{k} : string := {coq_str(d[k])}.")
    L.append("")
    return "\n".join(L)


def main():
    d = read()
    write_if_changed("Dispatch.v", emit(d))
    return d


if __name__ == "__main__":
    import pprint
    pprint.pprint(main())
