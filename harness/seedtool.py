#!/venv/bin/python
"""Development helper: take a seeded change from a sub-agent's scratch worktree, confirm it
(tests pass, demo fails with it and passes without it), store it under /verif/seeded/<name>/,
run the given checks against it (applied to /repo and undone straight afterwards)."""
import json
import os
import shutil
import subprocess
import sys

name, wt, prop = sys.argv[1], sys.argv[2], sys.argv[3]
checks = sys.argv[4:] or [prop]
needs = os.environ.get("SEED_NEEDS", "")
out = f"/verif/seeded/{name}"
os.makedirs(out, exist_ok=True)
env = dict(os.environ, PYTHONPATH=f"/tmp/shim:{wt}")


def sh(cmd, cwd=None, env=None):
    r = subprocess.run(cmd, shell=True, cwd=cwd, env=env, capture_output=True, text=True)
    return r.returncode, (r.stdout + r.stderr)


rc, diff = sh("git diff", cwd=wt)
open(f"{out}/patch.diff", "w").write(diff)
shutil.copy(f"{wt}/demo.py", f"{out}/demo.py")
meta = {"property": prop, "needs_to_manifest": needs, "ran": {}}
# with the change
# the baseline suite contains one stochastic test (test_below_threshold_does_not_trigger_detection fails about once in 40 runs,
# with or without any change): up to three attempts
for attempt in range(3):
    rc_t, o = sh("/venv/bin/python -m pytest -q -p no:cacheprovider tests/test_components.py tests/test_global_defender.py 2>&1 | tail -1", cwd=wt)
    if "67 passed" in o:
        break
meta["ran"]["tests_with_change"] = o.strip()
rc_w, o = sh("timeout 300 /venv/bin/python demo.py", cwd=wt, env=env)
meta["ran"]["demo_with_change_exit"] = rc_w
meta["ran"]["demo_with_change_tail"] = o[-600:]
# without the change
# (no `git stash`: the stash is shared by all worktrees of /repo)
changed = [l.split()[-1] for l in sh("git diff --name-only", cwd=wt)[1].splitlines() if l.strip()]
sh("git checkout -- " + " ".join(changed), cwd=wt)
rc_o, o = sh("timeout 300 /venv/bin/python demo.py", cwd=wt, env=env)
sh(f"git apply {out}/patch.diff", cwd=wt)
meta["ran"]["demo_without_change_exit"] = rc_o
meta["confirmed"] = ("67 passed" in meta["ran"]["tests_with_change"]) and rc_w == 1 and rc_o == 0
# against /repo
rc_a, o = sh(f"git -C /repo apply --3way {out}/patch.diff 2>&1 || git -C /repo apply {out}/patch.diff")
meta["ran"]["applies_to_repo_head"] = (rc_a == 0)
results = {}
if rc_a == 0:
    try:
        for c in checks:
            rc, o = sh(f"./check {c}", cwd="/verif")
            lines = [l for l in o.splitlines() if l.startswith("VIOLATION") or l.startswith("KNOWN")]
            results[c] = {"exit": rc, "lines": lines[:3]}
    finally:
        sh("git -C /repo checkout HEAD -- .")
meta["checks"] = results
meta["caught_by"] = [c for c, r in results.items() if r["exit"] == 1]
json.dump(meta, open(f"{out}/meta.json", "w"), indent=1)
print(json.dumps({k: meta[k] for k in ("confirmed", "caught_by")}), {c: r["exit"] for c, r in results.items()})
sh("rm -f /verif/replays/*.json")
