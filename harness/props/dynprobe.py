"""Full-stack probe for dynamic addresses (used by C13 and C19): the real coordinator with
use_dynamic_addresses on; agents join, play, reset collectively, leave, and NEW agents join after re-labellings.
Every CREATED / RESET_DONE observation must carry the configured start position read through the published
original->current address map (C19: the configured start position is what the game uses; C13: start positions
follow the re-labelling), and joining after a re-labelling must work like joining before it."""
import json

import check as CK


def _imports():
    import sys
    sys.path[:0] = [CK.HARNESS]
    import nsgenv
    return nsgenv


def run(ctx, prop):
    nsgenv = _imports()
    from AIDojoCoordinator.game_components import IP
    from nsgenv import msg, ip
    th = ctx.tier == "thorough"
    stats = {"sessions": 0, "joins_after_relabelling": 0, "observations_checked": 0}
    for scenario in (["scenario1_small", "scenario1", "three_nets"] if th else ["scenario1_small", "scenario1"]):
        for required in (1, 2):
            for seed in ([42, 7, 1234] if th else [42]):
                cfg = nsgenv.base_config(scenario, use_dynamic_addresses=True, required_players=required)
                A = cfg["coordinator"]["agents"]["Attacker"]
                A["max_steps"] = 4
                A["goal"]["known_data"] = {}
                # variant by scenario: unreachable (episodes end by timeout), or two hosts of the scenario that a scan may or may not reveal -
                # an episode may end with Success only when the view really knows them under the CURRENT labelling
                goal_hosts = ["192.168.1.2", "192.168.1.4"] if scenario == "scenario1" else []
                A["goal"]["known_hosts"] = goal_hosts or ["1.1.1.1"]
                listed_ctrl = ["213.47.23.195", "192.168.2.2"]
                listed_known = ["192.168.1.2"] if scenario != "three_nets" else []
                A["start_position"]["controlled_hosts"] = list(listed_ctrl)
                A["start_position"]["known_hosts"] = list(listed_known)
                try:
                    d = nsgenv.start(cfg, seed=seed)
                except Exception as e:
                    ctx.stage_errors.append((f"dynprobe start {scenario}", f"{type(e).__name__}: {e}"))
                    continue
                stats["sessions"] += 1
                g = d.g
                replay = {"kind": "dynamic_join_probe", "scenario": scenario, "required_players": required, "seed": seed}
                nxt = [0]

                def new_agent():
                    nxt[0] += 1
                    return ("10.6.0.%d" % nxt[0], 6000 + nxt[0])

                def outs(addr):
                    return [json.loads(raw[:-3].decode()) for raw in d.new_output(addr)]

                def check_obs(addr, doc, what):
                    stats["observations_checked"] += 1
                    state = doc["observation"]["state"]
                    ctrl = {h["ip"] for h in state["controlled_hosts"]}
                    known = {h["ip"] for h in state["known_hosts"]}
                    try:
                        exp_ctrl = {str(g._ip_mapping[IP(x)]) for x in listed_ctrl if IP(x) in g._ip_mapping}
                        exp_known = {str(g._ip_mapping[IP(x)]) for x in listed_known if IP(x) in g._ip_mapping}
                    except Exception as e:
                        ctx.stage_errors.append(("dynprobe map", f"{type(e).__name__}: {e}"))
                        return
                    # the goal description announced with the observation names the re-labelled addresses
                    import re
                    desc0 = A["goal"].get("description", "")
                    try:
                        exp_desc = re.sub(r"\b(?:[0-9]{1,3}\.){3}[0-9]{1,3}\b",
                                          lambda mm: str(g._ip_mapping[IP(mm.group(0))]) if IP(mm.group(0)) in g._ip_mapping else mm.group(0), desc0)
                    except Exception:
                        exp_desc = None
                    got_desc = doc.get("message", {}).get("goal_description")
                    if exp_desc is not None and got_desc is not None and got_desc != exp_desc:
                        ctx.violations.append({"key": f"goal description not re-labelled ({what.split(' of ')[0].split(' after ')[0]})",
                                               "what": f"{what}: the announced goal description is {got_desc!r}, the configured description read through the published address map is {exp_desc!r}",
                                               "replay": replay})
                    if not exp_ctrl <= ctrl or not exp_known <= known:
                        ctx.violations.append({"key": f"start position not honoured after re-labelling ({what})",
                                               "what": f"{what}: controlled {sorted(ctrl)} / known {sorted(known)} do not contain the configured start position read through the published address map ({sorted(exp_ctrl)} / {sorted(exp_known)})",
                                               "replay": replay})

                def join(addr, name, what):
                    d.connect(addr)
                    d.settle()
                    d.send(addr, nsgenv.join(name, "Attacker"))
                    d.settle()
                    return addr

                def expect_created(addr, what):
                    o = outs(addr)
                    if len(g.agents) < required and not o:
                        return None                     # held at the start barrier
                    if len(o) != 1 or "CREATED" not in o[0].get("status", ""):
                        ctx.violations.append({"key": f"join not confirmed ({what})",
                                               "what": f"{what}: the join was answered with {[x.get('status') for x in o]} {[x.get('message') for x in o][:1]} instead of CREATED",
                                               "replay": replay})
                        return False
                    check_obs(addr, o[0], what)
                    return True

                try:
                    agents = [join(new_agent(), f"a{i}", "first joins") for i in range(required)]
                    for a in agents:
                        expect_created(a, "join before any re-labelling")
                    for episode in range(3 if not th else 5):
                        # play to the end (timeout), then a collective reset = a re-labelling
                        for _ in range(4):
                            for a in agents:
                                st = g._agent_states.get(a)
                                if st is None:
                                    continue
                                src = sorted(str(h) for h in st.controlled_hosts)[0]
                                nets = sorted((n.ip, n.mask) for n in st.known_networks)
                                d.send(a, msg("ScanNetwork", source_host=ip(src), target_network={"ip": nets[_ % len(nets)][0], "mask": nets[_ % len(nets)][1]}))
                                d.settle()
                                for o_ in outs(a):
                                    ob = o_.get("observation") or {}
                                    if ob.get("end") and "Success" in str((ob.get("info") or {}).get("end_reason")):
                                        want = {str(g._ip_mapping[IP(x)]) for x in goal_hosts if IP(x) in g._ip_mapping} if goal_hosts else None
                                        have = {h["ip"] for h in ob["state"]["known_hosts"]}
                                        stats["successes_checked"] = stats.get("successes_checked", 0) + 1
                                        if want is None or not want <= have:
                                            ctx.violations.append({"key": "an episode is won without the configured goal (dynamic addresses)",
                                                                   "what": f"episode {episode + 1}: the attacker's episode ended with Success although the configured goal hosts {goal_hosts or ['1.1.1.1']} (currently {sorted(want) if want else 'not in the world'}) are not all among its known hosts {sorted(have)}",
                                                                   "replay": replay})
                        for a in agents:
                            outs(a)                     # final observations released by the end-of-episode barrier
                        # every network of the world, by the name the world itself gives it (re-labelled public networks keep
                        # their host bits), is a legal ScanNetwork target: never refused as a bad request
                        probe = agents[0]
                        stp = g._agent_states.get(probe)
                        if stp is not None:
                            srcp = sorted(str(h) for h in stp.controlled_hosts)[0]
                            for nn in sorted((str(k.ip), k.mask) for k in g._networks):
                                d.send(probe, msg("ScanNetwork", source_host=ip(srcp), target_network={"ip": nn[0], "mask": nn[1]}))
                                d.settle()
                                o = outs(probe)
                                stats["network_scans"] = stats.get("network_scans", 0) + 1
                                if len(o) != 1 or "BAD_REQUEST" in o[0].get("status", ""):
                                    ctx.violations.append({"key": "a network of the re-labelled world is refused as a scan target",
                                                           "what": f"episode {episode + 1}: ScanNetwork of {nn[0]}/{nn[1]} (a network of the current world) was answered {[x.get('status') for x in o]} {[x.get('message') for x in o][:1]}",
                                                           "replay": replay})
                        for a in agents:
                            d.send(a, msg("ResetGame"))
                            d.settle()
                        for a in agents:
                            o = outs(a)
                            if len(o) != 1 or "RESET_DONE" not in o[0].get("status", ""):
                                ctx.violations.append({"key": "reset not confirmed with dynamic addresses",
                                                       "what": f"episode {episode + 1}: ResetGame was answered with {[x.get('status') for x in o]}", "replay": replay})
                            else:
                                check_obs(a, o[0], f"RESET_DONE of episode {episode + 1}")
                        # one agent leaves, a new one takes its place: joining AFTER a re-labelling
                        gone = agents.pop(0)
                        d.send(gone, msg("QuitGame"))
                        d.settle()
                        outs(gone)
                        newcomer = join(new_agent(), f"n{episode}", "join after re-labelling")
                        stats["joins_after_relabelling"] += 1
                        expect_created(newcomer, f"join after {episode + 1} re-labelling(s)")
                        agents.append(newcomer)
                        for a in agents[:-1]:
                            outs(a)
                    if required == 2:
                        # a role that is VACANT while the world is re-labelled: the attackers leave one after the other, a Defender
                        # keeps the game alive and asks for the reset alone; an Attacker who joins afterwards gets the start position
                        # and the goal description of the CURRENT labelling (twice in a row)
                        keeper = ("10.6.9.1", 6901)
                        gone = agents.pop(0)
                        d.send(gone, msg("QuitGame")); d.settle(); outs(gone)
                        d.connect(keeper); d.settle()
                        d.send(keeper, nsgenv.join("keeper", "Defender")); d.settle()
                        ok = [x for x in outs(keeper) if "CREATED" in x.get("status", "")]
                        for a in agents:
                            outs(a)
                        if len(ok) != 1:
                            ctx.violations.append({"key": "a defender cannot take a free place under dynamic addresses", "what": "the Defender's join into a free place was not confirmed", "replay": replay})
                        else:
                            for rnd in range(2):
                                last = agents.pop(0)
                                d.send(last, msg("QuitGame")); d.settle(); outs(last)
                                d.send(keeper, msg("ResetGame")); d.settle()      # consensus of the only agent: the world is re-labelled
                                newcomer = join(new_agent(), f"v{rnd}", "join into a vacant role")
                                stats["joins_into_a_role_vacant_during_relabelling"] = stats.get("joins_into_a_role_vacant_during_relabelling", 0) + 1
                                expect_created(newcomer, f"join of an Attacker whose role was vacant during re-labelling {rnd + 1}")
                                o = outs(keeper)
                                if len(o) != 1 or "RESET_DONE" not in o[0].get("status", ""):
                                    ctx.violations.append({"key": "reset of the remaining role not confirmed", "what": f"the Defender's ResetGame was answered with {[x.get('status') for x in o]} once the required players were back", "replay": replay})
                                agents.append(newcomer)
                    for e in d.task_errors:
                        ctx.violations.append({"key": "task died in the dynamic-address probe", "what": f"a coordinator task died: {e}", "replay": replay})
                except Exception as e:
                    import traceback
                    ctx.stage_errors.append((f"dynprobe {scenario} required={required}", f"{type(e).__name__}: {e}\n{traceback.format_exc()[-600:]}"))
                finally:
                    d.close()
    ctx.coverage["dynamic_address_coordinator_probe"] = stats
