(* C10 - An agent may leave at any moment without harming the others
   Statements only (printed by Coq from the proof files); proofs are in coq/Proofs/Coord*.v.
   Departures observed by the server (EOF, read error, undecodable bytes, write error) forward QuitGame
   (conn_read / conn_run: `leave`); the quit handler then removes the agent.
*)
From Coq Require Import ZArith NArith List Bool Arith.
From NSG Require Import Base.Prelude Model.Defender Model.Coord Proofs.CoordBase Proofs.CoordInv Proofs.CoordInvConn Proofs.CoordInvDispatch Proofs.CoordInvHandler Proofs.CoordProps Proofs.CoordDirect Proofs.CoordInv2 Proofs.CoordAgentStep Proofs.CoordBarrier Proofs.CoordMeasure Proofs.CoordIsolation Proofs.CoordLimit Proofs.CoordKinds Proofs.CoordFiles.
Import ListNotations.

(* every label except the two background tasks leaves the records of all agents but (at most) one exactly as they are: a departure, a fault or a bad message of one agent never touches another agent's view, counters, status, reward or trajectory *)
Theorem C10_others :
  forall (V W G : Type) (wstep : W -> V -> G -> W * V) (wreset : W -> W) (winit : W -> role -> W * V)
         (goal : role -> V -> bool) (detect : list G -> G -> bool) (cfg : config) 
         (s s' : @state V W G) (l : @label G),
       @exec V W G wstep wreset winit goal detect cfg s l = @Some (@state V W G) s' ->
       l <> @LRun G TRewards ->
       l <> @LRun G TReset ->
       exists c0 : addr,
         forall c : addr,
         c <> c0 -> @alookup (@agent V G) c (@agents V W G s') = @alookup (@agent V G) c (@agents V W G s).
Proof. exact (@label_touches_one). Qed.

(* after the quit handler the address is in no per-agent table; every other agent's record (view, steps, status, reward, trajectory) is exactly as before; world and files unchanged *)
Theorem C10_forget :
  forall (V W G : Type) (wstep : W -> V -> G -> W * V) (winit : W -> role -> W * V)
         (goal : role -> V -> bool) (detect : list G -> G -> bool) (cfg : config) 
         (s : @state V W G) (id : nat) (c : addr),
       @NoDup addr (@map (addr * @agent V G) addr (@fst addr (@agent V G)) (@agents V W G s)) ->
       let s' := @h_start V W G wstep winit goal detect cfg s id c (@MQuit G) in
       @alookup (@agent V G) c (@agents V W G s') = @None (@agent V G) /\
       (forall k : addr,
        k <> c -> @alookup (@agent V G) k (@agents V W G s') = @alookup (@agent V G) k (@agents V W G s)) /\
       @world V W G s' = @world V W G s /\ @files V W G s' = @files V W G s.
Proof. exact (@quit_effect). Qed.

(* the connection's slot is released exactly once *)
Theorem C10_slot :
  forall (V W G : Type) (s : @state V W G) (c : addr),
       @served V W G (@cleanup V W G s c) = @served V W G s - 1.
Proof. exact (@cleanup_releases). Qed.

(* so the counter always equals the number of live connections *)
Theorem C10_count :
  forall (V W G : Type) (wstep : W -> V -> G -> W * V) (wreset : W -> W) (winit : W -> role -> W * V)
         (goal : role -> V -> bool) (detect : list G -> G -> bool) (cfg : config) 
         (w : W) (ls : list (@label G)) (s : @state V W G),
       @execs V W G wstep wreset winit goal detect cfg (@init_state V W G w) ls = @Some (@state V W G) s ->
       @served V W G s =
       @length (addr * @conn V G)
         (@filter (addr * @conn V G)
            (fun x : addr * @conn V G =>
             match @c_state V G (@snd addr (@conn V G) x) with
             | CReading | CAwaiting => true
             | _ => false
             end) (@conns V W G s)).
Proof. exact (@served_reachable). Qed.

(* a closed connection leaves nothing behind but the QuitGame forwarded on its behalf *)
Theorem C10_tokens :
  forall (V W G : Type) (wstep : W -> V -> G -> W * V) (wreset : W -> W) (winit : W -> role -> W * V)
         (goal : role -> V -> bool) (detect : list G -> G -> bool) (cfg : config) 
         (w : W) (ls : list (@label G)) (s : @state V W G),
       @execs V W G wstep wreset winit goal detect cfg (@init_state V W G w) ls = @Some (@state V W G) s ->
       forall (c : addr) (cn : @conn V G),
       @alookup (@conn V G) c (@conns V W G s) = @Some (@conn V G) cn ->
       match @c_state V G cn with
       | CAwaiting =>
           @naq G c (@aq V W G s) + @nh V G c (@handlers V W G s) + @length (@qitem V G) (@c_queue V G cn) =
           1
       | CClosed =>
           @c_queue V G cn = [] /\
           (forall m : @msg G, @In (addr * @msg G) (c, m) (@aq V W G s) -> m = @MQuit G) /\
           (forall h : @handler V G,
            @In (@handler V G) h (@handlers V W G s) ->
            @h_addr V G h = c -> @spawned_msg V G h = @Some (@msg G) (@MQuit G))
       | _ =>
           @naq G c (@aq V W G s) + @nh V G c (@handlers V W G s) + @length (@qitem V G) (@c_queue V G cn) =
           0
       end.
Proof. exact (@tokens_reachable). Qed.

(* after the departure has been processed, whatever is still unanswered is held by an unmet barrier *)
Theorem C10_barriers :
  forall (V W G : Type) (wstep : W -> V -> G -> W * V) (wreset : W -> W) (winit : W -> role -> W * V)
         (goal : role -> V -> bool) (detect : list G -> G -> bool) (cfg : config) 
         (w : W) (ls : list (@label G)) (s : @state V W G) (c : addr) (cn : @conn V G),
       @execs V W G wstep wreset winit goal detect cfg (@init_state V W G w) ls = @Some (@state V W G) s ->
       @quiescent V W G wstep winit goal detect cfg s = true ->
       @alookup (@conn V G) c (@conns V W G s) = @Some (@conn V G) cn ->
       @c_state V G cn = CAwaiting ->
       exists h : @handler V G,
         @In (@handler V G) h (@handlers V W G s) /\
         @h_addr V G h = c /\
         @parked_unreleased V G h /\
         @naq G c (@aq V W G s) = 0 /\ @c_queue V G cn = [] /\ @nh V G c (@handlers V W G s) = 1.
Proof. exact (@quiescent_reachable). Qed.

(* a new connection is served again once fewer than the limit are connected *)
Theorem C10_rejoin :
  forall (V W G : Type) (cfg : config) (s : @state V W G) (c : addr) (cn : @conn V G),
       @alookup (@conn V G) c (@conns V W G s) = @Some (@conn V G) cn ->
       @c_state V G cn = CNew ->
       @served V W G s < required cfg ->
       exists s' : @state V W G,
         @conn_run V W G cfg s c = @Some (@state V W G) s' /\
         @served V W G s' <= S (@served V W G s) /\
         (forall cn' : @conn V G,
          @alookup (@conn V G) c (@conns V W G s') = @Some (@conn V G) cn' -> @c_state V G cn' <> CNew).
Proof. exact (@admit_under_limit). Qed.


(* non-vacuity: a concrete run of the executable instance reaches a state in which a request is
   held back at a barrier (two required players, one has joined) and the model is quiescent *)
From NSG Require Import Model.CoordExec.
Example C10_nonvacuous :
  let cfg := {| required := 2; max_steps := fun _ => Some 3; r_step := (-1)%Z; r_succ := 100%Z; r_fail := (-10)%Z;
                allowed := fun _ => true; save_traj := false |} in
  let run := execs x_wstep x_wreset x_winit (x_goal []) (x_detect None (0%Z, 1%positive)) cfg (init_state [5%N; 6%N])
               [LConnect 1%N; LArrive 1%N (CMsg (MJoin (Some (7%N, Some RAttacker)))); LRun (TConn 1%N); LRun TDispatch; LRun (THandler 0)] in
  match run with
  | Some s => quiescent x_wstep x_winit (x_goal []) (x_detect None (0%Z, 1%positive)) cfg s = true /\
              length (handlers s) = 1 /\ length (agents s) = 1 /\ served s = 1
  | None => False
  end.
Proof. vm_compute. repeat split; reflexivity. Qed.

Print Assumptions C10_others.
Print Assumptions C10_forget.
Print Assumptions C10_slot.
Print Assumptions C10_count.
Print Assumptions C10_tokens.
Print Assumptions C10_barriers.
Print Assumptions C10_rejoin.
