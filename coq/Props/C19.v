(* C19 - The task configuration is honoured faithfully, with documented defaults.
   Statements only; proofs in Proofs/InitViewFacts.v and Proofs/ConfigFacts.v.  The scalar settings and their defaults are
   per-run obligations on the source (Obl/C19_defaults.v). *)
From stdpp Require Import gmap.
From Coq Require Import ZArith NArith.
From Coq Require Import String List Bool.
From NSG Require Import Model.World Model.Load Proofs.WorldStep Proofs.WorldInv Proofs.InitViewFacts Model.Json Model.Config Proofs.ConfigFacts.

(* every network, host and controlled host listed for the start position is in the initial view;
   controlled hosts are known hosts; no blocks are known at the start *)
Theorem C19_view : forall w sp oracle,
  let v := init_view w sp oracle in
  (forall n, In n (sp_nets sp) -> n ∈ v_nets v) /\
  (forall h, In h (sp_hosts sp) -> h ∈ v_hosts v) /\
  (forall h, In (SHost h) (sp_ctrl sp) -> h ∈ v_ctrl v /\ h ∈ v_hosts v) /\
  v_ctrl v ⊆ v_hosts v /\
  v_blocks v = ∅.
Proof. exact init_view_contains. Qed.

(* wildcards: every controlled host of the initial view is a listed address, one of the random
   picks (taken from the scenario's start hosts by the caller) or, with 'all_local', an address of
   a private network; 'all_local' yields ALL of those *)
Theorem C19_wildcards : forall w l oracle i,
  i ∈ resolve_ctrl w l oracle -> In (SHost i) l \/ In i oracle \/ (In SAllLocal l /\ i ∈ all_local w).
Proof. exact resolve_ctrl_spec. Qed.
Theorem C19_all_local_all : forall w l oracle i, In SAllLocal l -> i ∈ all_local w -> i ∈ resolve_ctrl w l oracle.
Proof. exact resolve_ctrl_all_local. Qed.
Theorem C19_all_local : forall w i,
  i ∈ all_local w <-> exists n ips, w_nets w !! n = Some ips /\ net_private n = true /\ i ∈ ips.
Proof. exact all_local_spec. Qed.

(* the private networks of the controlled hosts are known from the start *)
Theorem C19_own_nets : forall w sp oracle h n,
  h ∈ v_ctrl (init_view w sp oracle) -> n ∈ nets_of w h -> net_private n = true -> n ∈ v_nets (init_view w sp oracle).
Proof. exact init_view_own_nets. Qed.

Example C19_nonvacuous :
  let w := {| w_ip2host := {[3232235778%N := 7%N]}; w_nets := {[(3232235776%N, 24%N) := {[3232235778%N]}]};
              w_services := ∅; w_data := ∅; w_fw := ∅; w_blocks := ∅; w_data0 := ∅; w_fw0 := ∅ |} in
  let sp := {| sp_nets := []; sp_hosts := []; sp_ctrl := [SAllLocal]; sp_svcs := []; sp_data := [] |} in
  3232235778%N ∈ v_ctrl (init_view w sp []) /\ (3232235776%N, 24%N) ∈ v_nets (init_view w sp []).
Proof.
  split.
  - apply resolve_ctrl_all_local; [left; reflexivity|]. apply all_local_spec.
    exists (3232235776%N, 24%N), {[3232235778%N]}. split; [apply lookup_singleton|]. split; [reflexivity | set_solver].
  - vm_compute. set_solver.
Qed.

Section ConfigModel.
Import ListNotations.
Open Scope string_scope.
(* M5 (Model/Config.v): a scalar getter, described by the descriptor regenerated from utils.py, read on ANY configuration
   tree.  A key missing from the section it belongs to (at any depth of the path) makes the getter fall back, provided it
   catches KeyError (per-run obligation C19_all_catch_KeyError on the regenerated descriptors) ... *)
Theorem C19_absent_fallback : forall (d : descriptor) arg cfg pre k post o,
  map (subst arg) (d_path d) = (pre ++ k :: post)%list -> subscript cfg pre = inl (JObj o) -> jget k o = None ->
  str_in "KeyError" (d_excs d) = true ->
  read d arg cfg = ODefault (Config.post (d_ret d) (literal (d_default d))).
Proof. exact read_absent_default. Qed.
(* ... a present, convertible value is what the game uses ... *)
Theorem C19_present_value : forall (d : descriptor) arg cfg v v',
  subscript cfg (map (subst arg) (d_path d)) = inl v -> convert (d_conv d) v = inl v' ->
  read d arg cfg = OVal (Config.post (d_ret d) v').
Proof. exact read_present. Qed.
(* ... and the only exceptions that escape a getter are those it does not catch *)
Theorem C19_escapes : forall (d : descriptor) arg cfg e, read d arg cfg = ORaise e -> str_in e (d_excs d) = false.
Proof. exact read_raises. Qed.

(* non-vacuity: the shipped shape of a configuration; max_steps configured for the Attacker, absent for the Defender *)
Example C19_model_nonvacuous :
  let cfg := JObj [("env", JObj [("required_players", JNum 2); ("rewards", JObj [("step", JNum (-1))])]);
                   ("coordinator", JObj [("agents", JObj [("Attacker", JObj [("max_steps", JNum 25)]); ("Defender", JObj [])])])] in
  let g_ms : descriptor := ("get_max_steps", ["coordinator"; "agents"; "<role>"; "max_steps"], "int", "None", ["KeyError"; "TypeError"], "max_steps") in
  let g_rw : descriptor := ("get_rewards", ["env"; "rewards"; "<name>"], "", "0", ["KeyError"], "rewards") in
  read g_ms "Attacker" cfg = OVal (JNum 25) /\ read g_ms "Defender" cfg = ODefault JNull /\ read g_ms "Benign" cfg = ODefault JNull /\
  read g_rw "step" cfg = OVal (JNum (-1)) /\ read g_rw "fail" cfg = ODefault (JNum 0).
Proof. vm_compute. repeat split; reflexivity. Qed.
End ConfigModel.

Print Assumptions C19_view.
Print Assumptions C19_wildcards.
Print Assumptions C19_all_local_all.
Print Assumptions C19_all_local.
Print Assumptions C19_own_nets.
Print Assumptions C19_absent_fallback.
Print Assumptions C19_present_value.
Print Assumptions C19_escapes.
