(* Enumeration support for the C17 correspondence check: the model is evaluated on a whole
   finite block of (history, action, window, draw) cases in a fixed order and the results are
   packed into numbers, so that only a few kB travel between the harness and Coq. *)
From NSG Require Import Base.Prelude Model.Defender.

Fixpoint all_lists {A} (n : nat) (syms : list A) : list (list A) :=
  match n with
  | O => [[]]
  | S m => flat_map (fun x => map (cons x) (all_lists m syms)) syms
  end.

Definition hists {A} (lmin lmax : nat) (syms : list A) : list (list A) :=
  flat_map (fun n => all_lists n syms) (seq lmin (S lmax - lmin)).

(* result code: 0 = Some false, 1 = Some true, 2 = None (the code raises) *)
Definition code (o : option bool) : N :=
  match o with Some false => 0 | Some true => 1 | None => 2 end%N.

Definition block (T : tables) (syms : list act) (lmin lmax : nat) (tws : list nat)
           (rolls : atype -> list rat) : list N :=
  flat_map (fun h =>
    flat_map (fun a =>
      flat_map (fun tw =>
        map (fun r => code (decide T tw h a r)) (rolls (fst a))) tws) syms) (hists lmin lmax syms).

(* pack base-4 digits, 30 per word, least significant first *)
Fixpoint pack_word (l : list N) : N :=
  match l with [] => 0 | d :: tl => d + 4 * pack_word tl end%N.

Fixpoint pack (fuel : nat) (l : list N) : list N :=
  match fuel with
  | O => []
  | S f => match l with
           | [] => []
           | _ => pack_word (firstn 30 l) :: pack f (skipn 30 l)
           end
  end.

Definition packed (l : list N) : list N := pack (S (length l / 30)) l.

(* indices and model words where expected and computed words differ *)
Fixpoint diff_from (i : N) (got expected : list N) {struct got} : list (N * N) :=
  match got with
  | [] => match expected with [] => [] | _ => [(i, 3%N)] end
  | g :: gs =>
      match expected with
      | [] => (i, g) :: diff_from (N.succ i) gs []
      | e :: es => if N.eqb g e then diff_from (N.succ i) gs es else (i, g) :: diff_from (N.succ i) gs es
      end
  end.
