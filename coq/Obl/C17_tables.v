(* Per-run obligations of C17 on the tables generated from global_defender.py. *)
From NSG Require Import Base.Prelude Model.Defender Gen.DefenderTables.
From Coq Require Import PrimFloat Uint63.

(* every monitored type has a ratio threshold and a probability (the code cannot raise KeyError) *)
Theorem gen_tables_wf : wf_tables gen_tables = true.
Proof. vm_compute. reflexivity. Qed.

(* the probability the draw is compared with (a binary64) is within 2^-56 of the decimal written
   in the source, and every probability lies in [0,1] *)
Definition close (a b : rat) : bool :=
  let d := (fst a * Zpos (snd b) - fst b * Zpos (snd a))%Z in
  (Z.abs d * 2 ^ 56 <=? Zpos (snd a) * Zpos (snd b))%Z.
Definition prob_ok (t : atype) : bool :=
  match gen_prob t, gen_prob_decimal t with
  | Some p, Some d => close p d && (0 <=? fst p)%Z && (fst p <=? Zpos (snd p))%Z
  | None, None => true
  | _, _ => false
  end.
Theorem gen_prob_close : forallb prob_ok all_atypes = true.
Proof. vm_compute. reflexivity. Qed.

(* C17_float: for every window size up to 512, every count and every ratio threshold, the
   binary64 comparison the code performs (count / tw_size < threshold) agrees with the exact
   rational comparison against the decimal threshold used by the model.  Finite sweep over N
   (binary numbers, so the sweep is cheap), lifted to the statement over nat. *)
Definition float_cmpN (c tw : N) (thr : float) : bool :=
  PrimFloat.ltb (PrimFloat.div (PrimFloat.of_uint63 (Uint63.of_Z (Z.of_N c)))
                               (PrimFloat.of_uint63 (Uint63.of_Z (Z.of_N tw)))) thr.
Definition frac_ltN (c t : N) (r : rat) : bool := (Z.of_N c * Zpos (snd r) <? fst r * Z.of_N t)%Z.
Definition float_cmp (c tw : nat) (thr : float) : bool := float_cmpN (N.of_nat c) (N.of_nat tw) thr.

Fixpoint nseq (start : N) (len : nat) : list N :=
  match len with O => [] | S n => start :: nseq (N.succ start) n end.
Lemma in_nseq x len : forall start, (start <= x < start + N.of_nat len)%N -> In x (nseq start len).
Proof.
  induction len as [|n IH]; intros start H; [lia|].
  simpl. destruct (N.eq_dec start x) as [->|Hne]; [left; reflexivity|].
  right. apply IH. lia.
Qed.

Definition cell_ok (t : atype) (tw c : N) : bool :=
  match gen_ratio t, gen_ratio_float t with
  | Some r, Some f => Bool.eqb (float_cmpN c tw f) (frac_ltN c tw r)
  | None, None => true
  | _, _ => false
  end.
Definition sweep (P : atype -> N -> N -> bool) (bound : nat) : bool :=
  forallb (fun t => forallb (fun tw => forallb (fun c => P t tw c) (nseq 0 (S (N.to_nat tw)))) (nseq 1 bound)) all_atypes.
Definition float_bound : nat := 512.

Lemma sweep_lift P bound : sweep P bound = true ->
  forall t (tw c : N), (1 <= tw <= N.of_nat bound)%N -> (c <= tw)%N -> P t tw c = true.
Proof.
  unfold sweep. intros H t tw c Htw Hc.
  rewrite forallb_forall in H. specialize (H t (all_atypes_complete t)).
  rewrite forallb_forall in H. specialize (H tw ltac:(apply in_nseq; lia)).
  rewrite forallb_forall in H. apply (H c). apply in_nseq. lia.
Qed.

Lemma float_sweep_true : sweep cell_ok float_bound = true.
Proof. vm_compute. reflexivity. Qed.

Theorem C17_float :
  forall t tw c r f, 1 <= tw <= float_bound -> c <= tw ->
    gen_ratio t = Some r -> gen_ratio_float t = Some f ->
    float_cmp c tw f = frac_lt c tw r.
Proof.
  intros t tw c r f Htw Hc Hr Hf.
  pose proof (sweep_lift cell_ok float_bound float_sweep_true t (N.of_nat tw) (N.of_nat c)
                ltac:(lia) ltac:(lia)) as H.
  unfold cell_ok in H. rewrite Hr, Hf in H. apply Bool.eqb_prop in H.
  unfold float_cmp. rewrite H. unfold frac_ltN, frac_lt. rewrite !nat_N_Z. reflexivity.
Qed.

Print Assumptions gen_tables_wf.
Print Assumptions gen_prob_close.
Print Assumptions C17_float.
