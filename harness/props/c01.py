"""C01: every agent message is answered exactly once (coordinator model Model/Coord.v, trace-following correspondence, direct monitor)."""
import json
import check as CK
from props import coordcommon as CC

TRANSLATORS = ["enums", "defender", "dispatch"]
COQ_FILES = ["Props/C01.v", "Obl/DispatchOk.v", "Obl/EnumsOk.v"]


def correspondence(ctx):
    n = 400 if ctx.tier == "thorough" else 52
    CC.run_sessions(ctx, "C01", n, lambda rng: dict(n_events=rng.choice([20,40,60]), burst=0.4, fault=0.15, bad=0.2), lambda rng: {})


def replay(ctx, payload):
    return CC.replay_session(ctx, "C01", payload)
