"""World-level harness: independent reading of CYST scenario objects, a Python reference of the
documented action semantics (the property statements C02/C03, used as monitor), conversion of
implementation state to Coq terms, and walk generation.

Requires PYTHONPATH=/verif/harness/pyshim:/repo (see ./check)."""
import copy
import ipaddress
import itertools
import random

import netaddr

FIXED_STRINGS = {"can_attack_start_here": 0, "passive": 1, "": 2}
PRIVATE = [netaddr.IPNetwork("10.0.0.0/8"), netaddr.IPNetwork("172.16.0.0/12"), netaddr.IPNetwork("192.168.0.0/16")]


class Interner:
    def __init__(self):
        self.tab = dict(FIXED_STRINGS)

    def __call__(self, s):
        s = str(s)
        if s not in self.tab:
            self.tab[s] = len(self.tab)
        return self.tab[s]


def ip2n(s):
    return int(ipaddress.IPv4Address(str(s)))


def n2ip(n):
    return str(ipaddress.IPv4Address(n))


def is_private_value(n):
    return any(netaddr.IPAddress(n) in c for c in PRIVATE)


def run_coro(coro):
    """Run a coroutine that never suspends (the world's async methods)."""
    try:
        coro.send(None)
    except StopIteration as e:
        return e.value
    raise RuntimeError("world coroutine suspended unexpectedly")


# ------------------------------------------------------------------------------------------
# independent reading of the scenario objects

def read_scenario(objs, use_fw):
    nodes, routers = [], []
    for o in objs:
        cn = type(o).__name__
        if cn == "NodeConfig":
            svcs = []
            for s in o.passive_services:
                svcs.append({"name": s.name, "version": getattr(s, "version", None), "local": getattr(s, "local", None),
                             "data": [(d.owner, d.description) for d in (getattr(s, "private_data", None) or [])]})
            nodes.append({"id": o.id, "ifaces": [(str(i.ip), str(i.net)) for i in o.interfaces],
                          "active": len(o.active_services) > 0, "svcs": svcs})
        elif cn == "RouterConfig":
            rules = []
            for tp in o.traffic_processors:
                for ch in tp.chains:
                    for r in ch.rules:
                        rules.append((str(r.src_net), str(r.dst_net), r.policy.name == "ALLOW"))
            routers.append({"id": o.id, "internet": o.id.lower() == "internet",
                            "ifaces": [(str(i.ip), str(i.net)) for i in o.interfaces], "rules": rules})
    return {"nodes": nodes, "routers": routers, "use_fw": bool(use_fw)}


def net_pair(s):
    n = netaddr.IPNetwork(s)
    return (int(n.ip), n.prefixlen)


def key_net(s):
    """Network key the way the loader builds it: text split at '/' (address kept as written)."""
    a, m = s.split("/")
    return (ip2n(a), int(m))


def scenario_term(sc, I):
    def ifaces(l):
        return "[" + "; ".join(f"({ip2n(i)}%N, ({key_net(n)[0]}%N, {key_net(n)[1]}%N))" for i, n in l) + "]"

    def svc(s):
        return ("{| sv_name := %d%%N; sv_version := %d%%N; sv_local := %s; sv_data := [%s] |}" %
                (I(s["name"]), I(s["version"]), "true" if s["local"] else "false",
                 "; ".join(f"({I(o)}%N, {I(d)}%N)" for o, d in s["data"])))

    nodes = "; ".join("{| nc_id := %d%%N; nc_ifaces := %s; nc_active := %s; nc_svcs := [%s] |}" %
                      (I(n["id"]), ifaces(n["ifaces"]), "true" if n["active"] else "false", "; ".join(svc(s) for s in n["svcs"]))
                      for n in sc["nodes"])
    routers = "; ".join("{| rc_id := %d%%N; rc_internet := %s; rc_ifaces := %s; rc_rules := [%s] |}" %
                        (I(r["id"]), "true" if r["internet"] else "false", ifaces(r["ifaces"]),
                         "; ".join("{| ru_src := (%d%%N, %d%%N); ru_dst := (%d%%N, %d%%N); ru_allow := %s |}" %
                                   (net_pair(a) + net_pair(b) + ("true" if al else "false",)) for a, b, al in r["rules"]))
                        for r in sc["routers"])
    return "{| s_nodes := [%s]; s_routers := [%s]; s_use_fw := %s |}" % (nodes, routers, "true" if sc["use_fw"] else "false")


# ------------------------------------------------------------------------------------------
# Python reference: tables from the scenario reading (the "scenario definition")

def ref_load(sc):
    """Reference world from the scenario definition. Addresses are ints, strings stay strings."""
    ip2host, nets, services, data, start = {}, {}, {}, {}, []
    real_routers = [r for r in sc["routers"] if not r["internet"]]
    for n in sc["nodes"]:
        for i, nt in n["ifaces"]:
            ip2host[ip2n(i)] = n["id"]
            nets.setdefault(key_net(nt), set()).add(ip2n(i))
            if n["active"]:
                start.append(ip2n(i))
        for s in n["svcs"]:
            if s["name"] == "can_attack_start_here":
                if n["ifaces"]:
                    start.append(ip2n(n["ifaces"][-1][0]))
                continue
            services.setdefault(n["id"], set()).add((s["name"], "passive", s["version"], bool(s["local"])))
            for o, d in s["data"]:
                data.setdefault(n["id"], set()).add((o, d, 0, ""))
    for r in real_routers:
        for i, nt in r["ifaces"]:
            ip2host[ip2n(i)] = r["id"]
            nets.setdefault(key_net(nt), set()).add(ip2n(i))
    all_ips = set().union(*nets.values()) if nets else set()
    fw = {i: set() for i in all_ips}
    if sc["use_fw"]:
        priv = {k: v for k, v in nets.items() if is_private_value(k[0])}
        pub = {k: v for k, v in nets.items() if not is_private_value(k[0])}
        for v in priv.values():
            for s in v:
                fw[s] |= v
        for v in priv.values():
            for pv in pub.values():
                for s in v:
                    for dst in pv:
                        fw[s].add(dst)
                        fw[dst].add(dst)
        for r in real_routers:
            for a, b, allow in r["rules"]:
                if allow:
                    na, nb = netaddr.IPNetwork(a), netaddr.IPNetwork(b)
                    for s in all_ips:
                        if netaddr.IPAddress(s) in na:
                            for dst in all_ips:
                                if netaddr.IPAddress(dst) in nb:
                                    fw[s].add(dst)
    else:
        for s in all_ips:
            fw[s] = set(all_ips)
    return {"ip2host": ip2host, "nets": nets, "services": services, "data": data, "fw": fw, "blocks": {},
            "data0": copy.deepcopy(data), "fw0": copy.deepcopy(fw), "start": start}


def ref_pre(W, v, a):
    """Preconditions exactly as the property C02 states them."""
    t = a["type"]
    src = a["src"]
    if src not in v["ctrl"]:
        return False
    if t == "ScanNetwork":
        return True
    tgt = a["tgt"]
    if tgt not in W["fw"].get(src, set()):
        return False
    if t == "FindServices":
        return True
    if t == "FindData":
        return tgt in v["ctrl"]
    if t == "ExploitService":
        node = W["ip2host"].get(tgt)
        return node is not None and a["svc"] in W["services"].get(node, set()) and a["svc"] in v["svcs"].get(tgt, set())
    if t == "ExfiltrateData":
        node = W["ip2host"].get(src)
        return tgt in v["ctrl"] and a["data"] in v["data"].get(src, set()) and a["data"] in W["data"].get(node, set())
    if t == "BlockIP":
        return tgt in v["ctrl"] and tgt != a["blocked"]
    raise ValueError(t)


def ref_step(W, v, a):
    """Documented effect (C03) on a copy; returns (W', v')."""
    W = copy.deepcopy(W)
    v = copy.deepcopy(v)
    if not ref_pre(W, v, a):
        return W, v
    t, src = a["type"], a["src"]
    if t == "ScanNetwork":
        net = netaddr.IPNetwork(f"{n2ip(a['net'][0])}/{a['net'][1]}")
        for i in W["ip2host"]:
            if netaddr.IPAddress(i) in net and i in W["fw"].get(src, set()):
                v["hosts"].add(i)
        return W, v
    tgt = a["tgt"]
    if t == "FindServices":
        node = W["ip2host"].get(tgt)
        found = set(W["services"].get(node, set())) if node is not None else set()
        if tgt not in v["ctrl"]:
            found = {s for s in found if not s[3]}
        if found:
            v["svcs"][tgt] = found
            if tgt not in v["hosts"]:
                v["hosts"].add(tgt)
                v["nets"] |= {k for k, ips in W["nets"].items() if tgt in ips}
    elif t == "FindData":
        node = W["ip2host"].get(tgt)
        found = W["data"].get(node, set())
        if found:
            v["data"].setdefault(tgt, set()).update(found)
        bl = W["blocks"].get(tgt, set())
        if bl:
            v["blocks"].setdefault(tgt, set()).update(bl)
    elif t == "ExploitService":
        v["ctrl"].add(tgt)
        v["nets"] |= {k for k, ips in W["nets"].items() if tgt in ips}
    elif t == "ExfiltrateData":
        v["data"].setdefault(tgt, set()).add(a["data"])
        W["data"].setdefault(W["ip2host"][tgt], set()).add(a["data"])
    elif t == "BlockIP":
        b = a["blocked"]
        if tgt in W["fw"]:
            W["fw"][tgt].discard(b)
        if b in W["fw"]:
            W["fw"][b].discard(tgt)
        W["blocks"].setdefault(tgt, set()).add(b)
        W["blocks"].setdefault(b, set()).add(tgt)
        v["blocks"].setdefault(tgt, set()).add(b)
        v["blocks"].setdefault(b, set()).add(tgt)
    return W, v


def ref_reset(W):
    W = copy.deepcopy(W)
    W["data"] = copy.deepcopy(W["data0"])
    W["fw"] = copy.deepcopy(W["fw0"])
    W["blocks"] = {}
    return W


# ------------------------------------------------------------------------------------------
# reading the implementation

def svc_t(s):
    return (s.name, s.type, s.version, bool(s.is_local))


def data_t(d):
    return (d.owner, d.id, d.size, d.type)


def impl_tables(g):
    """The world tables of the implementation, in the reference's vocabulary."""
    return {
        "ip2host": {ip2n(k): v for k, v in g._ip_to_hostname.items()},
        "nets": {(ip2n(k.ip), k.mask): {ip2n(i) for i in v} for k, v in g._networks.items()},
        "services": {k: {svc_t(s) for s in v} for k, v in g._services.items()},
        "data": {k: {data_t(d) for d in v} for k, v in g._data.items()},
        "fw": {ip2n(k): {ip2n(i) for i in v} for k, v in g._firewall.items()},
        "blocks": {ip2n(k): {ip2n(i) for i in v} for k, v in g._fw_blocks.items()},
        "data0": {k: {data_t(d) for d in v} for k, v in g._data_original.items()},
        "fw0": {ip2n(k): {ip2n(i) for i in v} for k, v in g._firewall_original.items()},
        "start": [ip2n(i) for i in g.hosts_to_start],
    }


def impl_view(gs):
    return {
        "ctrl": {ip2n(i) for i in gs.controlled_hosts},
        "hosts": {ip2n(i) for i in gs.known_hosts},
        "svcs": {ip2n(k): {svc_t(s) for s in v} for k, v in gs.known_services.items()},
        "data": {ip2n(k): {data_t(d) for d in v} for k, v in gs.known_data.items()},
        "nets": {(ip2n(n.ip), n.mask) for n in gs.known_networks},
        "blocks": {ip2n(k): {ip2n(i) for i in v} for k, v in gs.known_blocks.items()},
    }


def shape_errors(gs):
    """A view is six collections: three sets, three dictionaries of sets, each of the documented element class.
    (A list where a set belongs encodes the same but is not equal to what it decodes to.)"""
    from AIDojoCoordinator.game_components import IP, Network, Service, Data
    bad = []
    for name, cls in (("controlled_hosts", IP), ("known_hosts", IP), ("known_networks", Network)):
        x = getattr(gs, name)
        if not isinstance(x, (set, frozenset)):
            bad.append(f"{name} is a {type(x).__name__}")
        elif any(not isinstance(e, cls) for e in x):
            bad.append(f"{name} holds an element that is not a {cls.__name__}")
    for name, cls in (("known_services", Service), ("known_data", Data), ("known_blocks", IP)):
        x = getattr(gs, name)
        if not isinstance(x, dict):
            bad.append(f"{name} is a {type(x).__name__}")
            continue
        for k, v in x.items():
            if not isinstance(k, IP):
                bad.append(f"{name} has a key that is not an IP")
            if not isinstance(v, (set, frozenset)):
                bad.append(f"{name}[{k}] is a {type(v).__name__}")
            elif any(not isinstance(e, cls) for e in v):
                bad.append(f"{name}[{k}] holds an element that is not a {cls.__name__}")
    return bad


def to_gamestate(v):
    from AIDojoCoordinator.game_components import GameState, IP, Network, Service, Data
    return GameState(
        controlled_hosts={IP(n2ip(i)) for i in v["ctrl"]}, known_hosts={IP(n2ip(i)) for i in v["hosts"]},
        known_services={IP(n2ip(k)): {Service(*s) for s in ss} for k, ss in v["svcs"].items()},
        known_data={IP(n2ip(k)): {Data(*d) for d in ds} for k, ds in v["data"].items()},
        known_networks={Network(n2ip(a), m) for a, m in v["nets"]},
        known_blocks={IP(n2ip(k)): {IP(n2ip(i)) for i in bs} for k, bs in v["blocks"].items()})


def to_action(a):
    from AIDojoCoordinator.game_components import Action, ActionType, IP, Network, Service, Data
    p = {"source_host": IP(n2ip(a["src"]))}
    if a["type"] == "ScanNetwork":
        p["target_network"] = Network(n2ip(a["net"][0]), a["net"][1])
    else:
        p["target_host"] = IP(n2ip(a["tgt"]))
    if a["type"] == "ExploitService":
        p["target_service"] = Service(*a["svc"])
    if a["type"] == "ExfiltrateData":
        p["data"] = Data(*a["data"])
    if a["type"] == "BlockIP":
        p["blocked_host"] = IP(n2ip(a["blocked"]))
    return Action(getattr(ActionType, a["type"]), p)


# ------------------------------------------------------------------------------------------
# Coq terms

def svc_term(s, I):
    return f"({I(s[0])}%N, {I(s[1])}%N, {I(s[2])}%N, {'true' if s[3] else 'false'})"


def data_term(d, I):
    return f"({I(d[0])}%N, {I(d[1])}%N, ({int(d[2])})%Z, {I(d[3])}%N)"


def nl(xs):
    return "[" + "; ".join(f"{x}%N" for x in sorted(xs)) + "]"


def assoc(m, kf, vf):
    return "[" + "; ".join(f"({kf(k)}, [{'; '.join(vf(x) for x in sorted(v, key=repr))}])" for k, v in sorted(m.items(), key=lambda kv: repr(kv[0]))) + "]"


def view_term(v, I):
    n = lambda x: f"{x}%N"
    netf = lambda x: f"({x[0]}%N, {x[1]}%N)"
    return ("(mk_view %s %s %s %s [%s] %s)" % (
        nl(v["ctrl"]), nl(v["hosts"]), assoc(v["svcs"], n, lambda s: svc_term(s, I)),
        assoc(v["data"], n, lambda d: data_term(d, I)), "; ".join(netf(x) for x in sorted(v["nets"])),
        assoc(v["blocks"], n, n)))


def world_term(T, I):
    n = lambda x: f"{x}%N"
    netf = lambda x: f"({x[0]}%N, {x[1]}%N)"
    hn = lambda x: f"{I(x)}%N"
    return ("(mk_world [%s] %s %s %s %s %s %s %s)" % (
        "; ".join(f"({k}%N, {I(v)}%N)" for k, v in sorted(T["ip2host"].items())),
        assoc(T["nets"], netf, n), assoc(T["services"], hn, lambda s: svc_term(s, I)),
        assoc(T["data"], hn, lambda d: data_term(d, I)), assoc(T["fw"], n, n), assoc(T["blocks"], n, n),
        assoc(T["data0"], hn, lambda d: data_term(d, I)), assoc(T["fw0"], n, n)))


def action_term(a, I):
    t = a["type"]
    if t == "ScanNetwork":
        return f"(AScan {a['src']}%N ({a['net'][0]}%N, {a['net'][1]}%N))"
    if t == "FindServices":
        return f"(AFindServices {a['src']}%N {a['tgt']}%N)"
    if t == "FindData":
        return f"(AFindData {a['src']}%N {a['tgt']}%N)"
    if t == "ExploitService":
        return f"(AExploit {a['src']}%N {a['tgt']}%N {svc_term(a['svc'], I)})"
    if t == "ExfiltrateData":
        return f"(AExfil {a['src']}%N {a['tgt']}%N {data_term(a['data'], I)})"
    if t == "BlockIP":
        return f"(ABlock {a['src']}%N {a['tgt']}%N {a['blocked']}%N)"
    raise ValueError(t)


def empty_view():
    return {"ctrl": set(), "hosts": set(), "svcs": {}, "data": {}, "nets": set(), "blocks": {}}


# ------------------------------------------------------------------------------------------
# scenario generation (stub cyst objects)

def gen_scenario(rng, n_nodes=None, one_private_block=False):
    """A random topology built from the stub cyst classes: nodes with 0-3 interfaces, several
    services per node, several datapoints per service, local and non-local services, routers with
    random ALLOW/DENY rules, private and public networks."""
    import cyst.api.configuration as C
    nets_priv = [f"192.168.{rng.randrange(1, 6)}.0/24" for _ in range(rng.randrange(1, 3))] + \
                rng.sample(["10.0.0.0/24", "10.0.1.0/24", "172.16.5.0/28", "172.31.0.0/16"], rng.randrange(0, 3))
    if one_private_block:
        # all private networks inside one RFC 1918 block (what the dynamic address generator can re-label)
        nets_priv = [f"192.168.{k}.0/24" for k in rng.sample(range(1, 9), rng.randrange(1, 4))] + \
                    ([f"192.168.{rng.randrange(10, 20)}.16/28"] if rng.random() < 0.3 else [])
    # public = not RFC 1918 (10/8, 172.16/12, 192.168/16): ordinary addresses, but also special-purpose blocks that other libraries call
    # "private" (TEST-NET-1/2/3, benchmarking, link-local, shared address space)
    nets_pub = rng.sample(["213.47.23.192/26", "8.8.8.0/24", "100.64.0.0/30", "203.0.113.0/24", "198.51.100.0/25", "192.0.2.0/28", "198.18.0.0/24", "169.254.7.0/24"],
                          rng.randrange(1, 3))
    nets = list(dict.fromkeys(nets_priv + nets_pub))
    used = set()

    def fresh_ip(net):
        n = netaddr.IPNetwork(net)
        for _ in range(50):
            i = int(n.network) + rng.randrange(1, max(2, n.size - 1))
            if i not in used:
                used.add(i)
                return n2ip(i)
        return None

    objs = []
    n_nodes = n_nodes or rng.randrange(2, 8)
    names = ["ssh", "http", "smb", "rdp", "postgres", "lanman", "bash"]
    for k in range(n_nodes):
        ifs = [C.InterfaceConfig(C.IPAddress(a), C.IPNetwork(nt))
               for nt in rng.sample(nets, min(len(nets), rng.choice([1, 1, 1, 2, 3, 0] if k > 1 else [1, 2])))
               for a in [fresh_ip(nt)] if a is not None]
        svcs = []
        for s in rng.sample(names, rng.randrange(0, 4)):
            data = [C.DataConfig(owner=f"User{rng.randrange(3)}", description=f"Data{rng.randrange(6)}From{k}") for _ in range(rng.choice([0, 0, 1, 2, 3]))]
            svcs.append(C.PassiveServiceConfig(name=s, owner="o", version=f"{rng.randrange(3)}.{rng.randrange(3)}", local=rng.random() < 0.3,
                                               private_data=data, access_level=C.AccessLevel.LIMITED))
        if ifs and rng.random() < 0.3:
            svcs.append(C.PassiveServiceConfig(name="can_attack_start_here", owner="o", version="1", local=True, access_level=C.AccessLevel.LIMITED))
        active = [C.ActiveServiceConfig(type="netsecenv_agent", name="attacker", owner="attacker", access_level=C.AccessLevel.LIMITED)] if rng.random() < 0.2 else []
        objs.append(C.NodeConfig(active_services=active, passive_services=svcs, traffic_processors=[], interfaces=ifs, shell="", id=f"node{k}"))
    # routers
    for r in range(rng.randrange(1, 3)):
        ifs = [C.InterfaceConfig(C.IPAddress(a), C.IPNetwork(nt), index=j)
               for j, nt in enumerate(rng.sample(nets, rng.randrange(1, len(nets) + 1))) for a in [fresh_ip(nt)] if a is not None]
        rules = []
        ips = sorted(used)
        for _ in range(rng.randrange(0, 8)):
            def sel():
                c = rng.random()
                if c < 0.5:
                    return f"{n2ip(rng.choice(ips))}/32"
                if c < 0.9:
                    return rng.choice(nets)
                return "0.0.0.0/0"
            rules.append(C.FirewallRule(C.IPNetwork(sel()), C.IPNetwork(sel()), "*", C.FirewallPolicy.ALLOW if rng.random() < 0.8 else C.FirewallPolicy.DENY))
        tp = [C.FirewallConfig(default_policy=C.FirewallPolicy.DENY,
                               chains=[C.FirewallChainConfig(type=C.FirewallChainType.FORWARD, policy=C.FirewallPolicy.DENY, rules=rules)])]
        objs.append(C.RouterConfig(interfaces=ifs, traffic_processors=tp, routing_table=[], id=rng.choice(["router1", "fw", "Internet"]) if r else "router0"))
    return objs
