"""Shared helpers for the fail-closed source translators."""
import ast
import os

REPO = os.environ.get("VERIF_REPO", "/repo")
GEN = os.path.join(os.path.dirname(os.path.dirname(os.path.dirname(os.path.abspath(__file__)))), "coq", "Gen")


class TranslationError(Exception):
    """The source does not have one of the shapes this translator understands."""


def parse(relpath):
    path = os.path.join(REPO, relpath)
    with open(path) as f:
        src = f.read()
    return src, ast.parse(src, filename=path)


def write_if_changed(name, text):
    os.makedirs(GEN, exist_ok=True)
    path = os.path.join(GEN, name)
    try:
        with open(path) as f:
            if f.read() == text:
                return False
    except FileNotFoundError:
        pass
    with open(path, "w") as f:
        f.write(text)
    return True


ATYPES = ["ScanNetwork", "FindServices", "FindData", "ExploitService", "ExfiltrateData", "BlockIP",
          "JoinGame", "QuitGame", "ResetGame"]


def find_class(tree, name):
    for n in tree.body:
        if isinstance(n, ast.ClassDef) and n.name == name:
            return n
    raise TranslationError(f"class {name} not found")


def find_func(cls, name):
    for n in cls.body:
        if isinstance(n, (ast.FunctionDef, ast.AsyncFunctionDef)) and n.name == name:
            return n
    raise TranslationError(f"function {name} not found")
