(* C05 - Rewards follow the configured rule and the end bonus is paid exactly once
   Statements only (printed by Coq from the proof files); proofs are in coq/Proofs/Coord*.v.

*)
From Coq Require Import ZArith NArith List Bool Arith.
From NSG Require Import Base.Prelude Model.Defender Model.Coord Proofs.CoordBase Proofs.CoordInv Proofs.CoordInvConn Proofs.CoordInvDispatch Proofs.CoordInvHandler Proofs.CoordProps Proofs.CoordDirect Proofs.CoordInv2 Proofs.CoordAgentStep Proofs.CoordBarrier Proofs.CoordMeasure Proofs.CoordIsolation Proofs.CoordLimit Proofs.CoordKinds Proofs.CoordFiles.
Import ListNotations.

(* every processed action sets the reward to the step reward *)
Theorem C05_step :
  forall (V W G : Type) (wstep : W -> V -> G -> W * V) (winit : W -> role -> W * V)
         (goal : role -> V -> bool) (detect : list G -> G -> bool) (cfg : config) 
         (s : @state V W G) (id : nat) (c : addr) (act : G) (a : @agent V G) (w' : W) 
         (v' : V),
       @alookup (@agent V G) c (@agents V W G s) = @Some (@agent V G) a ->
       @a_ended V G a = false ->
       wstep (@world V W G s) (@a_view V G a) act = (w', v') ->
       let a2 := @stepped_agent V W G goal detect cfg s c a act v' in
       let ags := @aupdate (@agent V G) c (fun _ : @agent V G => a2) (@agents V W G s) in
       let s1 := @set_agents V W G (@set_world V W G s w') ags in
       let s2 := if @all_ended V G ags then @set_ev_end V W G s1 true else s1 in
       @h_start V W G wstep winit goal detect cfg s id c (@MGame G act true) =
       (if @a_ended V G a2
        then @park V W G s2 id (@PRewards V G false act v')
        else @game_finish V W G s2 id c act v').
Proof. exact (@game_step_eq). Qed.

(* the reward task adds the success/fail bonus by role and outcome and marks the agent rewarded *)
Theorem C05_bonus :
  forall (V G : Type) (cfg : config) (successful : bool) (a : @agent V G),
       @a_rewarded V G a = false ->
       @a_ended V G a = true ->
       @a_role V G a <> RBenign ->
       let a' := @reward_agent V G cfg successful a in
       @a_rewarded V G a' = true /\
       @a_reward V G a' = (@a_reward V G a + @final_bonus V G cfg a')%Z /\
       (@a_role V G a = RAttacker -> @a_status V G a' = @a_status V G a) /\
       (@a_role V G a = RDefender -> @a_status V G a' = SSuccess <-> successful = false).
Proof. exact (@reward_agent_bonus). Qed.

(* an agent already rewarded in this episode is left exactly as it is when the task runs again *)
Theorem C05_once :
  forall (V G : Type) (cfg : config) (successful : bool) (a : @agent V G),
       @a_rewarded V G a = true -> @reward_agent V G cfg successful a = a.
Proof. exact (@reward_agent_once). Qed.

(* the task does nothing unless every agent in the game has finished *)
Theorem C05_only_all_ended :
  forall (V W G : Type) (cfg : config) (s s' : @state V W G),
       @rewards_run V W G cfg s = @Some (@state V W G) s' ->
       @all_ended V G (@agents V W G s) = false ->
       @agents V W G s' = @agents V W G s /\
       @handlers V W G s' = @handlers V W G s /\ @ev_end V W G s' = false.
Proof. exact (@rewards_only_when_all_ended). Qed.

(* what the task does when it acts *)
Theorem C05_effect :
  forall (V W G : Type) (cfg : config) (s s' : @state V W G),
       @rewards_run V W G cfg s = @Some (@state V W G) s' ->
       @all_ended V G (@agents V W G s) = true ->
       let successful :=
         @existsb (addr * @agent V G)
           (fun x : addr * @agent V G =>
            role_eqb (@a_role V G (@snd addr (@agent V G) x)) RAttacker &&
            status_eqb (@a_status V G (@snd addr (@agent V G) x)) SSuccess) (@agents V W G s) in
       @agents V W G s' =
       @map (addr * @agent V G) (addr * @agent V G)
         (fun x : addr * @agent V G =>
          (@fst addr (@agent V G) x, @reward_agent V G cfg successful (@snd addr (@agent V G) x)))
         (@agents V W G s) /\
       @handlers V W G s' = @map (@handler V G) (@handler V G) (@release_rewards V G) (@handlers V W G s) /\
       @ev_end V W G s' = false /\ @world V W G s' = @world V W G s.
Proof. exact (@rewards_effect). Qed.

(* refused actions repeat the stored reward and change nothing *)
Theorem C05_forbidden :
  forall (V W G : Type) (wstep : W -> V -> G -> W * V) (winit : W -> role -> W * V)
         (goal : role -> V -> bool) (detect : list G -> G -> bool) (cfg : config) 
         (s : @state V W G) (id : nat) (c : addr) (act : G) (a : @agent V G),
       @alookup (@agent V G) c (@agents V W G s) = @Some (@agent V G) a ->
       @a_ended V G a = true ->
       @h_start V W G wstep winit goal detect cfg s id c (@MGame G act true) =
       @respond V W G (@remove_handler V W G s id) c
         (@RForbidden V G (@fst V Z (@fst (V * Z) bool (@a_obs V G a))) (@a_reward V G a) (@a_status V G a)).
Proof. exact (@forbidden_after_end). Qed.

(* a reset returns reward and counters to zero *)
Theorem C05_reset :
  forall (V W G : Type) (winit : W -> role -> W * V) (cfg : config) (w : W)
         (done : list (addr * @agent V G)) (fl : list (N * role * @traj V G)) (x : addr * @agent V G),
       exists (w' : W) (v : V),
         winit w (@a_role V G (@snd addr (@agent V G) x)) = (w', v) /\
         @reset_one V W G winit cfg (w, done, fl) x =
         (w',
          done ++
          [(@fst addr (@agent V G) x,
            {|
              a_name := @a_name V G (@snd addr (@agent V G) x);
              a_role := @a_role V G (@snd addr (@agent V G) x);
              a_steps := 0;
              a_req := false;
              a_status := init_status (@a_role V G (@snd addr (@agent V G) x));
              a_ended := false;
              a_view := v;
              a_reward := 0;
              a_rewarded := false;
              a_obs := (v, 0%Z, false);
              a_traj := @a_traj V G (@snd addr (@agent V G) x)
            |})],
          if save_traj cfg
          then
           fl ++
           [(@a_name V G (@snd addr (@agent V G) x), @a_role V G (@snd addr (@agent V G) x),
             @a_traj V G (@snd addr (@agent V G) x))]
          else fl).
Proof. exact (@reset_one_effect). Qed.

(* ACROSS LABELS (exactly once): from any reachable state in which an agent has been rewarded, along every continuation without a run of the reset task, the agent - while it is in the game - has exactly the same reward, status, view and step counter: no second bonus, whatever the reward task, other agents or repeated requests do *)
Theorem C05_once_episode :
  forall (V W G : Type) (wstep : W -> V -> G -> W * V) (wreset : W -> W) (winit : W -> role -> W * V)
         (goal : role -> V -> bool) (detect : list G -> G -> bool) (cfg : config) 
         (w : W) (ls0 ls : list (@label G)) (s s' : @state V W G) (c : addr) (a : @agent V G),
       @execs V W G wstep wreset winit goal detect cfg (@init_state V W G w) ls0 = @Some (@state V W G) s ->
       @execs V W G wstep wreset winit goal detect cfg s ls = @Some (@state V W G) s' ->
       @no_reset G ls ->
       @alookup (@agent V G) c (@agents V W G s) = @Some (@agent V G) a ->
       @a_rewarded V G a = true ->
       (exists a' : @agent V G,
          @alookup (@agent V G) c (@agents V W G s') = @Some (@agent V G) a' /\
          @a_rewarded V G a' = true /\
          @a_ended V G a' = true /\
          @a_reward V G a' = @a_reward V G a /\
          @a_status V G a' = @a_status V G a /\
          @a_view V G a' = @a_view V G a /\ @a_steps V G a' = @a_steps V G a) \/
       @gone_along V W G wstep wreset winit goal detect cfg s ls c.
Proof. exact (@rewarded_once_reachable). Qed.

(* in every reachable state a rewarded agent has finished its episode (no bonus before the end) *)
Theorem C05_rewarded_ended :
  forall (V W G : Type) (wstep : W -> V -> G -> W * V) (wreset : W -> W) (winit : W -> role -> W * V)
         (goal : role -> V -> bool) (detect : list G -> G -> bool) (cfg : config) 
         (w : W) (ls : list (@label G)) (s : @state V W G) (c : addr) (a : @agent V G),
       @execs V W G wstep wreset winit goal detect cfg (@init_state V W G w) ls = @Some (@state V W G) s ->
       @alookup (@agent V G) c (@agents V W G s) = @Some (@agent V G) a ->
       @a_rewarded V G a = true -> @a_ended V G a = true.
Proof. exact (@rewarded_ended_reachable). Qed.

(* the reward of a finished agent changes only by the reward task paying an agent not yet rewarded, or by the reset *)
Theorem C05_reward_moves :
  forall (V G : Type) (goal : role -> V -> bool) (detect : list G -> G -> bool) 
         (cfg : config) (a a' : @agent V G) (l : @label G),
       @achange V G goal detect cfg a l a' ->
       @a_ended V G a = true ->
       @a_reward V G a' <> @a_reward V G a ->
       l = @LRun G TRewards /\ @a_rewarded V G a = false /\ @a_rewarded V G a' = true \/ l = @LRun G TReset.
Proof. exact (@achange_reward_changes). Qed.


(* non-vacuity: a concrete run of the executable instance reaches a state in which a request is
   held back at a barrier (two required players, one has joined) and the model is quiescent *)
From NSG Require Import Model.CoordExec.
Example C05_nonvacuous :
  let cfg := {| required := 2; max_steps := fun _ => Some 3; r_step := (-1)%Z; r_succ := 100%Z; r_fail := (-10)%Z;
                allowed := fun _ => true; save_traj := false |} in
  let run := execs x_wstep x_wreset x_winit (x_goal []) (x_detect None (0%Z, 1%positive)) cfg (init_state [5%N; 6%N])
               [LConnect 1%N; LArrive 1%N (CMsg (MJoin (Some (7%N, Some RAttacker)))); LRun (TConn 1%N); LRun TDispatch; LRun (THandler 0)] in
  match run with
  | Some s => quiescent x_wstep x_winit (x_goal []) (x_detect None (0%Z, 1%positive)) cfg s = true /\
              length (handlers s) = 1 /\ length (agents s) = 1 /\ served s = 1
  | None => False
  end.
Proof. vm_compute. repeat split; reflexivity. Qed.

(* non-vacuity of the cross-label theorems: a concrete run of the executable instance (one attacker, step limit 1)
   reaches a state in which the agent has been rewarded (step reward -1 plus fail bonus -10); continuing the run
   (the released handler answers, the agent is refused a further action, the reward task is not enabled again)
   the record is exactly the same *)
Example C05_episode_nonvacuous :
  let cfg := {| required := 1; max_steps := fun _ => Some 1; r_step := (-1)%Z; r_succ := 100%Z; r_fail := (-10)%Z;
                allowed := fun _ => true; save_traj := false |} in
  let ex := execs x_wstep x_wreset x_winit (x_goal []) (x_detect None (0%Z, 1%positive)) cfg in
  let g := MGame (ScanNetwork, 3%N) true in
  let ls0 := [LConnect 1%N; LArrive 1%N (CMsg (MJoin (Some (7%N, Some RAttacker)))); LRun (TConn 1%N); LRun TDispatch; LRun (THandler 0);
              LRun (TConn 1%N); LArrive 1%N (CMsg g); LRun (TConn 1%N); LRun TDispatch; LRun (THandler 1); LRun TRewards] in
  let ls := [LRun (THandler 1); LRun (TConn 1%N); LArrive 1%N (CMsg g); LRun (TConn 1%N); LRun TDispatch; LRun (THandler 2); LRun (TConn 1%N)] in
  match ex (init_state [5%N; 6%N; 8%N]) ls0 with
  | Some s =>
      match alookup 1%N (agents s), ex s ls with
      | Some a, Some s' =>
          a_rewarded a = true /\ a_ended a = true /\ a_reward a = (-11)%Z /\ a_status a = STimeout /\
          (exists h, In h (handlers s) /\ h_pc h = PRewards true (ScanNetwork, 3%N) 6%N) /\
          match alookup 1%N (agents s') with
          | Some a' => a_reward a' = (-11)%Z /\ a_steps a' = 1 /\ length (t_actions (a_traj a')) = 1
          | None => False
          end
      | _, _ => False
      end
  | None => False
  end.
Proof. vm_compute. repeat split; try reflexivity. eexists. split; [left; reflexivity | reflexivity]. Qed.

Print Assumptions C05_step.
Print Assumptions C05_bonus.
Print Assumptions C05_once.
Print Assumptions C05_only_all_ended.
Print Assumptions C05_effect.
Print Assumptions C05_forbidden.
Print Assumptions C05_reset.
Print Assumptions C05_once_episode.
Print Assumptions C05_rewarded_ended.
Print Assumptions C05_reward_moves.
