"""C12: agents affect each other only through the shared network."""
import check as CK
from props import worldcommon as WC
from props.c02 import ASSUME
from props.c02 import replay as world_replay

TRANSLATORS = []
COQ_FILES = ["Props/C12.v"]


def probe_coordinator_isolation(ctx):
    """At the coordinator (where goal checks, detection and bookkeeping run around the world's step): two Attackers with different
    hosts, a Defender whose goal uses the documented 'all_attackers' wildcard, and a Benign agent. Whoever sends a message, the
    view the coordinator holds for every OTHER agent stays exactly as it is (compared field by field), and an agent that repeats an
    action without effect gets the view it had."""
    import json
    import sys
    sys.path[:0] = [CK.HARNESS]
    import nsgenv
    import worldlib as WL
    stats = {"messages": 0, "views_compared": 0}
    for scenario in ("scenario1", "three_nets"):
        cfg = nsgenv.base_config(scenario, required_players=4)
        A = cfg["coordinator"]["agents"]["Attacker"]
        A["start_position"]["controlled_hosts"] = ["213.47.23.195", "random"]
        A["max_steps"] = 30
        A["goal"]["known_data"] = {}
        A["goal"]["known_hosts"] = ["1.1.1.1"]
        D = cfg["coordinator"]["agents"]["Defender"]
        D["goal"]["known_blocks"] = {"213.47.23.195": "all_attackers"}        # the shipped Defender goal
        replay = {"kind": "coordinator_isolation", "scenario": scenario}
        try:
            d = nsgenv.start(cfg)
        except Exception as e:
            ctx.stage_errors.append((f"isolation probe start {scenario}", f"{type(e).__name__}: {e}"))
            continue
        try:
            g = d.g
            agents = [(("10.7.0.1", 1), "first", "Attacker"), (("10.7.0.2", 2), "second", "Attacker"), (("10.7.0.3", 3), "guard", "Defender"), (("10.7.0.4", 4), "user", "Benign")]
            for a, nm, role in agents:
                d.connect(a)
            d.settle()
            for a, nm, role in agents:
                d.send(a, nsgenv.join(nm, role)); d.settle()
            for a, nm, role in agents:
                d.new_output(a)
            if len(g.agents) != 4:
                ctx.stage_errors.append((f"isolation probe {scenario}", f"only {len(g.agents)} of 4 agents joined: {d.task_errors[:1]}"))
                continue

            def views():
                return {a: WL.impl_view(g._agent_states[a]) for a in g.agents if a in g._agent_states}

            def send(a, text, what):
                before = views()
                d.send(a, text); d.settle()
                d.new_output(a)
                stats["messages"] += 1
                after = views()
                for b in before:
                    if b != a and b in after:
                        stats["views_compared"] += 1
                        if after[b] != before[b]:
                            diff = [k for k in before[b] if before[b][k] != after[b][k]]
                            ctx.violations.append({"key": "a message of one agent changed the view held for another",
                                                   "what": f"{scenario}: after {what} the view the coordinator holds for another agent (which did nothing) changed in {diff}: e.g. controlled hosts {sorted(WL.n2ip(x) for x in before[b]['ctrl'])} -> {sorted(WL.n2ip(x) for x in after[b]['ctrl'])}",
                                                   "replay": replay})

            def act(a, k):
                st = g._agent_states[a]
                ctrl = sorted(str(h) for h in st.controlled_hosts)
                local = [h for h in ctrl if h.startswith(("192.168.", "10.", "172."))] or ctrl
                known = sorted(str(h) for h in st.known_hosts)
                nets = sorted((n.ip, n.mask) for n in st.known_networks)
                svcs = sorted(((str(h), s_) for h, ss in st.known_services.items() for s_ in ss if str(h) not in ctrl), key=lambda x: (x[0], x[1].name))
                if k % 4 == 0 and nets:
                    n = nets[(k // 4) % len(nets)]
                    return nsgenv.msg("ScanNetwork", source_host=nsgenv.ip(local[0]), target_network={"ip": n[0], "mask": n[1]}), "a ScanNetwork"
                if k % 4 == 1:
                    return nsgenv.msg("FindServices", source_host=nsgenv.ip(local[0]), target_host=nsgenv.ip(known[(k // 4) % len(known)])), "a FindServices"
                if k % 4 == 2 and svcs:
                    h, sv = svcs[(k // 4) % len(svcs)]
                    return nsgenv.msg("ExploitService", source_host=nsgenv.ip(local[0]), target_host=nsgenv.ip(h),
                                      target_service={"name": sv.name, "type": sv.type, "version": sv.version, "is_local": sv.is_local}), "an ExploitService"
                return nsgenv.msg("FindData", source_host=nsgenv.ip(local[0]), target_host=nsgenv.ip(ctrl[(k // 4) % len(ctrl)])), "a FindData"

            second = agents[1][0]
            for k in range(10):                       # the second attacker gets ahead: it controls more than the first
                if g._episode_ends.get(second):
                    break
                t, what = act(second, k)
                send(second, t, what + " of the second attacker")
            for rnd in range(6):
                for a, nm, role in agents:
                    if g._episode_ends.get(a):
                        continue
                    t, what = act(a, rnd * 4 + 3 if role != "Attacker" else rnd)
                    send(a, t, f"{what} of {nm} ({role})")
            if d.task_errors:
                ctx.violations.append({"key": "task died in the isolation probe", "what": f"{scenario}: {d.task_errors[:1]}", "replay": replay})
        except Exception as e:
            import traceback
            ctx.stage_errors.append((f"isolation probe {scenario}", f"{type(e).__name__}: {e}\n{traceback.format_exc()[-600:]}"))
        finally:
            d.close()
    ctx.coverage["coordinator_isolation_probe"] = stats


def replay(ctx, payload):
    if payload.get("kind") == "coordinator_isolation":
        c2 = CK.Ctx("C12", "quick", 1)
        probe_coordinator_isolation(c2)
        for v in c2.violations:
            print(v["what"])
        if c2.violations:
            print("VIOLATION property=C12 replay=(this file)")
        return 1 if c2.violations else 0
    return world_replay(ctx, payload)


def correspondence(ctx):
    th = ctx.tier == "thorough"
    probe_coordinator_isolation(ctx)
    WC.world_suite(ctx, "C12", tags={"pre", "nopre"}, walks_per_spec=4 if th else 1, n_generated=24 if th else 6,
                   n_steps=200 if th else 90, perturb=0.0, resets=30, n_agents=(2, 3), shared_every=2)
    ctx.assumptions += ASSUME + ["aliasing between agents' views is outside the value-semantic model: decided by deep snapshots (partial)"]
