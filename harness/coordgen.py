"""Generation of coordinator sessions: random configurations, adaptive multi-agent scripts with
valid, malformed and out-of-order messages, departures of every kind, settled and burst arrival.

Every random choice derives from the rng passed in; the recorded session (Session.events) replays
exactly."""
import copy
import json
import random

import nsgenv
import coordrun as CR
from nsgenv import msg, ip

SCEN = "scenario1_small"
NETS = [("192.168.1.0", 24), ("192.168.2.0", 24), ("192.168.3.0", 24), ("213.47.23.192", 26)]
ROLES = ["Attacker", "Defender", "Benign"]


def gen_config(rng, required=None, defender=None, save=None, max_steps=None):
    cfg = nsgenv.base_config(SCEN)
    env = cfg["env"]
    env["required_players"] = required if required is not None else rng.choice([1, 1, 2, 2, 3])
    env["rewards"] = {"step": rng.choice([-1, 0, -3]), "success": rng.choice([100, 7, 0]), "fail": rng.choice([-10, -5, 0])}
    env["use_global_defender"] = bool(rng.random() < 0.3) if defender is None else defender
    env["save_trajectories"] = bool(rng.random() < 0.3) if save is None else save
    env["use_firewall"] = rng.random() < 0.8
    A = cfg["coordinator"]["agents"]["Attacker"]
    D = cfg["coordinator"]["agents"]["Defender"]
    ms = max_steps if max_steps is not None else rng.choice([None, 1, 2, 3, 4, 6, 0])
    if ms is None:
        A.pop("max_steps", None)
    else:
        A["max_steps"] = ms
    if rng.random() < 0.3:
        D["max_steps"] = rng.choice([2, 3, 5])
    # attacker goal: reachable in 1-4 actions, or the shipped exfiltration goal
    g = copy.deepcopy(nsgenv.EMPTY_PART)
    c = rng.random()
    if c < 0.3:
        g["known_hosts"] = [rng.choice(["192.168.1.2", "192.168.1.3", "192.168.1.4"])]
    elif c < 0.5:
        g["known_networks"] = ["192.168.1.0/24"]      # satisfied from the start (neighbouring nets): goal at first action
    elif c < 0.7:
        g["controlled_hosts"] = ["192.168.1.2"]
    elif c < 0.8:
        g["known_services"] = {}
        g["known_hosts"] = ["192.168.1.2", "192.168.1.4"]
    else:
        g["known_data"] = {"213.47.23.195": [["User1", "DataFromServer1"]]}
    A["goal"] = dict(g, description="goal", is_any_part_of_goal_random=False)
    A["start_position"]["controlled_hosts"] = ["213.47.23.195", "192.168.2.2"]
    D["goal"]["known_data"] = {"1.1.1.1": [["x", "y"]]} if rng.random() < 0.8 else {}
    D["start_position"]["controlled_hosts"] = ["192.168.1.2", "192.168.2.2"]
    draw = rng.choice([0.0, 0.03, 0.999]) if env["use_global_defender"] else None
    return cfg, draw


def goals_of(cfg):
    ag = cfg["coordinator"]["agents"]
    return {"Attacker": ag["Attacker"]["goal"], "Defender": ag["Defender"]["goal"],
            "Benign": {"known_data": {"1.1.1.1": [["User1", "DataFromInternet"]]}}}


def game_msg(atype, **params):
    """JSON text and model description of a well-formed game action (all dataclass fields explicit)."""
    d = {"action_type": f"ActionType.{atype}", "parameters": params}
    return json.dumps(d), {"kind": "game", "atype": atype, "as_dict": d, "valid": True}


def svc(s):
    return {"name": s.name, "type": s.type, "version": s.version, "is_local": s.is_local}


def dat(d):
    return {"owner": d.owner, "id": d.id, "size": d.size, "type": d.type}


def gen_game(rng, g, addr):
    """A (mostly sensible) game action for the agent at addr, from its current view."""
    st = g._agent_states.get(addr)
    ctrl = sorted(str(h) for h in st.controlled_hosts) if st else ["192.168.2.2"]
    known = sorted(str(h) for h in st.known_hosts) if st else ctrl
    src = rng.choice(ctrl) if ctrl and rng.random() < 0.9 else "1.2.3.4"
    r = rng.random()
    if r < 0.3:
        n = rng.choice(NETS)
        return game_msg("ScanNetwork", source_host=ip(src), target_network={"ip": n[0], "mask": n[1]})
    if r < 0.5:
        return game_msg("FindServices", source_host=ip(src), target_host=ip(rng.choice(known)))
    if r < 0.65 and st and st.known_services:
        h = rng.choice(sorted(st.known_services, key=str))
        s = rng.choice(sorted(st.known_services[h]))
        return game_msg("ExploitService", source_host=ip(src), target_host=ip(str(h)), target_service=svc(s))
    if r < 0.8:
        return game_msg("FindData", source_host=ip(src), target_host=ip(rng.choice(ctrl or known)))
    if r < 0.9 and st and st.known_data:
        h = rng.choice(sorted(st.known_data, key=str))
        d = rng.choice(sorted(st.known_data[h]))
        return game_msg("ExfiltrateData", source_host=ip(str(h)), target_host=ip(rng.choice(ctrl)), data=dat(d))
    return game_msg("BlockIP", source_host=ip(src), target_host=ip(rng.choice(ctrl or known)), blocked_host=ip(rng.choice(known)))


def gen_invalid_game(rng):
    c = rng.randrange(6)
    if c == 0:
        t = msg("ScanNetwork", source_host=ip("192.168.2.2"))
        at = "ScanNetwork"
    elif c == 1:
        t = msg("FindServices", target_host=ip("192.168.1.2"))
        at = "FindServices"
    elif c == 2:
        t = msg("ScanNetwork", source_host=ip("192.168.2.2"), target_network={"ip": "192.168.1.0", "mask": 99})
        at = "ScanNetwork"
    elif c == 3:
        t = msg("ExploitService", source_host=ip("192.168.2.2"), target_host=ip("192.168.1.2"))
        at = "ExploitService"
    elif c == 4:
        t = msg("BlockIP", source_host=ip("192.168.2.2"), target_host=ip("192.168.2.2"))
        at = "BlockIP"
    else:
        t = msg("ExfiltrateData", source_host=ip("192.168.2.2"), target_host=ip("192.168.2.2"), target_network={"ip": "x", "mask": 1})
        at = "ExfiltrateData"
    d = json.loads(t)
    return t, {"kind": "game", "atype": at, "as_dict": d, "valid": False}


GARBAGE = ["   ", "not json", "{", "[1,2]", "null", "{}", '{"action_type": "ActionType.Nope", "parameters": {}}',
           '{"action_type": "ActionType.ScanNetwork"}', '{"action_type": "ActionType.ScanNetwork", "parameters": {"bogus": 1}}',
           '{"action_type": "ActionType.FindData", "parameters": {"source_host": {"ip": "999.1.1.1"}}}',
           '{"parameters": {}}', '{"action_type": "ActionType.JoinGame", "parameters": {"agent_info": {"name": "x"}}}',
           '{"action_type": "ActionType.ResetGame", "parameters": {"request_trajectory": "maybe"}}',
           '{"action_type": "ActionType.ScanNetwork", "parameters": {"source_host": "1.1.1.1"}}']


class Gen:
    """Drives one random session."""

    def __init__(self, rng, cfg, draw, n_events, burst=0.4, fault=0.15, bad=0.15, n_conns=None, objs=None, resets=0.12):
        self.rng = rng
        self.S = CR.Session(cfg, draw=draw, objs=objs)
        self.cfg = cfg
        self.n_events = n_events
        self.burst, self.fault, self.bad, self.resets = burst, fault, bad, resets
        self.next_port = 1
        self.names = {}
        self.n_conns = n_conns

    def new_addr(self):
        a = ("10.0.0.%d" % (self.next_port % 250 + 1), 40000 + self.next_port)
        self.next_port += 1
        return a

    def can_send(self, addr):
        c = self.S.d.conns[addr]
        return (not c.task.done()) and len(c.reader._buffer) == 0 and not c.reader._eof and c.reader._exception is None

    def live(self):
        return [a for a, c in self.S.d.conns.items() if not c.task.done()]

    def step_event(self):
        rng, S, g = self.rng, self.S, self.S.g
        live = self.live()
        req = int(self.cfg["env"]["required_players"])
        r = rng.random()
        if not live or (len(live) < req + 1 and r < 0.15) or (len(live) < req and r < 0.5):
            a = self.new_addr()
            S.connect(a)
            return
        a = rng.choice(live)
        if not self.can_send(a):
            S.run_iters(1)
            return
        r = rng.random()
        joined = a in g.agents
        if r < self.fault:
            k = rng.randrange(5)
            if k == 0:
                S.eof(a)
            elif k == 1:
                S.read_error(a)
            elif k == 2:
                S.write_fail(a)
            elif k == 3:
                S.send(a, b"\xff\xfe\x00\xfa", {"kind": "undecodable"})
            else:
                S.send(a, msg("QuitGame"), {"kind": "quit"})
            return
        if r < self.fault + self.bad:
            k = rng.randrange(6)
            if k == 0:
                S.send(a, rng.choice(GARBAGE), {"kind": "garbage"})
            elif k == 1:
                t, d = gen_invalid_game(rng)
                S.send(a, t, d)
            elif k == 2:
                S.send(a, json.dumps({"action_type": "ActionType.JoinGame", "parameters": {}}), {"kind": "join", "info": False})
            elif k == 3:
                S.send(a, nsgenv.join("x", "Hacker"), {"kind": "join", "name": "x", "role": "Hacker"})
            elif k == 4:
                nm = rng.choice(["dup", "x", "a"])
                role = rng.choice(ROLES)
                S.send(a, nsgenv.join(nm, role), {"kind": "join", "name": nm, "role": role})    # second join if already joined
            else:
                t, d = gen_game(rng, g, a)        # game action possibly before joining
                S.send(a, t, d)
            return
        if not joined:
            nm = rng.choice(["a", "b", "c", "same"])
            role = rng.choice(["Attacker", "Attacker", "Defender", "Benign"])
            S.send(a, nsgenv.join(nm, role), {"kind": "join", "name": nm, "role": role})
            return
        ended = g._episode_ends.get(a, False)
        if (ended and rng.random() < 0.6) or rng.random() < self.resets:
            tr = rng.random() < 0.5
            S.send(a, msg("ResetGame", request_trajectory=str(tr)) if tr or rng.random() < 0.5 else msg("ResetGame"),
                   {"kind": "reset", "traj": tr})
            return
        t, d = gen_game(rng, g, a)
        S.send(a, t, d)

    def run(self):
        rng, S = self.rng, self.S
        for _ in range(self.n_events):
            self.step_event()
            if rng.random() < self.burst:
                S.run_iters(rng.randrange(0, 4))
            else:
                S.settle()
        S.settle()
        return S
