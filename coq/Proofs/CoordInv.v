(* The structural invariant of the coordinator model, preserved by every label from every state:
   token conservation (every forwarded request is in exactly one place: action queue, a handler
   task, or the response queue), connection accounting, handler/agent consistency. *)
From Coq Require Import ZArith NArith List Bool Arith Lia.
From NSG Require Import Model.Coord Proofs.CoordBase.
Import ListNotations.

Section Inv.
  Context {V W G : Type}.
  Variable wstep : W -> V -> G -> W * V.
  Variable wreset : W -> W.
  Variable winit : W -> role -> W * V.
  Variable goal : role -> V -> bool.
  Variable detect : list G -> G -> bool.
  Variable cfg : config.

  Notation state := (@state V W G).
  Notation handler := (@handler V G).
  Notation conn := (@conn V G).
  Notation hpc := (@hpc V G).
  Notation msg := (@msg G).
  Notation exec := (@exec V W G wstep wreset winit goal detect cfg).
  Notation h_start := (@h_start V W G wstep winit goal detect cfg).
  Notation h_wake := (@h_wake V W G wstep winit goal detect cfg).

  Definition tok (s : state) (c : addr) : nat := naq c (aq s) + nh c (handlers s) + nq c (conns s).

  Definition spawned_msg (h : handler) : option msg := match h_pc h with PSpawned m => Some m | _ => None end.
  Definition parked (h : handler) : Prop := spawned_msg h = None.

  Definition active (c : cstate) : bool := match c with CReading | CAwaiting => true | _ => false end.
  Definition nactive (cs : list (addr * conn)) : nat := length (filter (fun x => active (c_state (snd x))) cs).

  Record Inv (s : state) : Prop := {
    I_tok : forall c cn, alookup c (conns s) = Some cn ->
      match c_state cn with
      | CNew | CReading => tok s c = 0
      | CAwaiting => tok s c = 1
      | CClosed => c_queue cn = [] /\ (forall m, In (c, m) (aq s) -> m = MQuit) /\
                   (forall h, In h (handlers s) -> h_addr h = c -> spawned_msg h = Some MQuit)
      end;
    I_known_aq : forall c m, In (c, m) (aq s) -> alookup c (conns s) <> None;
    I_known_h : forall h, In h (handlers s) -> alookup (h_addr h) (conns s) <> None;
    I_ids : NoDup (map h_id (handlers s)) /\ forall h, In h (handlers s) -> h_id h < next_hid s;
    I_served : served s = nactive (conns s);
    I_conns : NoDup (map fst (conns s));
    I_agents : NoDup (map fst (agents s));
    I_parked : forall h, In h (handlers s) -> parked h -> alookup (h_addr h) (agents s) <> None;
    I_nogarbage : forall h, In h (handlers s) -> spawned_msg h <> Some MGarbage;
  }.

  Lemma inv_init w : Inv (init_state w).
  Proof.
    constructor; simpl.
    - intros c cn H. discriminate.
    - intros c m H. contradiction.
    - intros h H. contradiction.
    - split; [constructor | intros h H; contradiction].
    - reflexivity.
    - constructor.
    - constructor.
    - intros h H. contradiction.
    - intros h H. contradiction.
  Qed.

  (* ---- the network part of the state: everything the structural invariant talks about except
          the agent table ---- *)
  Definition hsk (h : handler) := (h_id h, h_addr h, spawned_msg h).

  Lemma hsk_inv (h h' : handler) : hsk h' = hsk h -> h_id h' = h_id h /\ h_addr h' = h_addr h /\ spawned_msg h' = spawned_msg h.
  Proof. unfold hsk. intros [= H1 H2 H3]. auto. Qed.

  Lemma cons_eq_inv {A} (a b : A) l l' : a :: l = b :: l' -> a = b /\ l = l'.
  Proof. intros [= -> ->]. auto. Qed.

  Lemma nh_hsk c (hs hs' : list handler) : map hsk hs' = map hsk hs -> nh c hs' = nh c hs.
  Proof.
    revert hs'. induction hs as [|h tl IH]; intros [|h' tl'] H; cbn [map] in H; try discriminate; [reflexivity|].
    apply cons_eq_inv in H as [Hh Ht]. apply hsk_inv in Hh as (_ & Ha & _). unfold nh in *. cbn [filter].
    rewrite Ha. destruct (N.eqb (h_addr h) c); cbn [length]; rewrite (IH tl' Ht); reflexivity.
  Qed.

  Lemma in_hsk (hs hs' : list handler) h' : map hsk hs' = map hsk hs -> In h' hs' -> exists h, In h hs /\ hsk h = hsk h'.
  Proof.
    intros H Hin. apply (in_map hsk) in Hin. rewrite H in Hin. apply in_map_iff in Hin. destruct Hin as (h & Hh & Hi). eauto.
  Qed.

  Lemma map_id_hsk (hs hs' : list handler) : map hsk hs' = map hsk hs -> map h_id hs' = map h_id hs.
  Proof.
    intros H. assert (E : forall l : list handler, map h_id l = map (fun x => fst (fst x)) (map hsk l)).
    { intros l. rewrite map_map. reflexivity. }
    rewrite !E, H. reflexivity.
  Qed.

  (* the release functions change neither identity, address nor the spawned message *)
  Lemma hsk_release_start h : hsk (release_start h) = hsk h.
  Proof. destruct h as [i a pc]; destruct pc; reflexivity. Qed.
  Lemma hsk_release_rewards h : hsk (release_rewards h) = hsk h.
  Proof. destruct h as [i a pc]; destruct pc; reflexivity. Qed.
  Lemma hsk_release_reset h : hsk (release_reset h) = hsk h.
  Proof. destruct h as [i a pc]; destruct pc; reflexivity. Qed.
  Lemma map_hsk_map (f : handler -> handler) hs : (forall h, hsk (f h) = hsk h) -> map hsk (map f hs) = map hsk hs.
  Proof. intros Hf. rewrite map_map. apply map_ext. exact Hf. Qed.

  (* the invariant only looks at six components of the state *)
  Lemma inv_ext (s1 s2 : state) :
    conns s2 = conns s1 -> aq s2 = aq s1 -> handlers s2 = handlers s1 -> next_hid s2 = next_hid s1 ->
    served s2 = served s1 -> agents s2 = agents s1 -> Inv s1 -> Inv s2.
  Proof.
    intros E1 E2 E3 E4 E5 E6 Hi. destruct Hi as [T K1 K2 Ids Sv Cn Ag Pk Ng].
    constructor; unfold tok in *; rewrite ?E1, ?E2, ?E3, ?E4, ?E5, ?E6; assumption.
  Qed.

  (* ---- the local-update lemma: a step that only touches address c -------------------------- *)
  Lemma inv_local (s s' : state) (c : addr) :
    Inv s ->
    (forall c', c' <> c -> alookup c' (conns s') = alookup c' (conns s)) ->
    NoDup (map fst (conns s')) ->
    (forall c', c' <> c -> naq c' (aq s') = naq c' (aq s) /\ nh c' (handlers s') = nh c' (handlers s)) ->
    (forall c' m, In (c', m) (aq s') -> c' = c \/ In (c', m) (aq s)) ->
    (forall h', In h' (handlers s') -> h_addr h' = c \/ exists h, In h (handlers s) /\ hsk h = hsk h') ->
    (NoDup (map h_id (handlers s')) /\ forall h, In h (handlers s') -> h_id h < next_hid s') ->
    served s' = nactive (conns s') ->
    NoDup (map fst (agents s')) ->
    (forall h, In h (handlers s') -> parked h -> alookup (h_addr h) (agents s') <> None) ->
    (* at c *)
    (forall cn, alookup c (conns s') = Some cn ->
       match c_state cn with
       | CNew | CReading => tok s' c = 0
       | CAwaiting => tok s' c = 1
       | CClosed => c_queue cn = [] /\ (forall m, In (c, m) (aq s') -> m = MQuit) /\
                    (forall h, In h (handlers s') -> h_addr h = c -> spawned_msg h = Some MQuit)
       end) ->
    ((exists m, In (c, m) (aq s')) \/ (exists h, In h (handlers s') /\ h_addr h = c) -> alookup c (conns s') <> None) ->
    (forall h, In h (handlers s') -> h_addr h = c -> spawned_msg h <> Some MGarbage) ->
    Inv s'.
  Proof.
    intros Hi Hc Hk Hn Haq Hh Hids Hsv Hag Hpk Hat Hkn Hng.
    constructor; try assumption.
    - intros c' cn Hl. destruct (N.eq_dec c' c) as [->|Hne]; [apply Hat, Hl|].
      rewrite (Hc c' Hne) in Hl. pose proof (I_tok s Hi c' cn Hl) as Ht.
      assert (Et : tok s' c' = tok s c').
      { unfold tok. destruct (Hn c' Hne) as [-> ->]. unfold nq. rewrite (Hc c' Hne). reflexivity. }
      destruct (c_state cn); try (rewrite Et; exact Ht).
      destruct Ht as (Hq & Hm & Hhs). split; [exact Hq|]. split.
      + intros m Hin. destruct (Haq c' m Hin) as [->|Hin']; [congruence | apply Hm, Hin'].
      + intros h' Hin Ha. destruct (Hh h' Hin) as [Hc'|(h & Hin' & Hs)]; [congruence|].
        apply hsk_inv in Hs as (_ & Ha' & Hsp). rewrite <- Hsp. apply Hhs; [exact Hin' | congruence].
    - intros c' m Hin. destruct (N.eq_dec c' c) as [->|Hne]; [apply Hkn; left; eauto|].
      rewrite (Hc c' Hne). destruct (Haq c' m Hin) as [->|Hin']; [congruence | eapply I_known_aq; eauto].
    - intros h' Hin. destruct (N.eq_dec (h_addr h') c) as [E|Hne]; [rewrite E; apply Hkn; right; eauto|].
      rewrite (Hc _ Hne). destruct (Hh h' Hin) as [E|(h & Hin' & Hs)]; [congruence|].
      apply hsk_inv in Hs as (_ & Ha' & _). rewrite <- Ha'. apply (I_known_h s Hi), Hin'.
    - intros h' Hin. destruct (N.eq_dec (h_addr h') c) as [E|Hne]; [apply Hng; assumption|].
      destruct (Hh h' Hin) as [E|(h & Hin' & Hs)]; [congruence|].
      apply hsk_inv in Hs as (_ & _ & Hsp). rewrite <- Hsp. apply (I_nogarbage s Hi), Hin'.
  Qed.
End Inv.
