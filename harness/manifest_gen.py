#!/venv/bin/python
"""Regenerates /verif/MANIFEST.json from the table below (kept in one place so the manifest is
always valid and in step with what is built)."""
import json
import os
import subprocess

VERIF = os.path.dirname(os.path.dirname(os.path.abspath(__file__)))

CLAIMED = {}
NOT_YET = "check not built yet (work in progress; see DESIGN.md section 11 for the order of work)"


def claim(pid, text, note, technique, design_ref):
    CLAIMED[pid] = dict(text=text, note=note, technique=technique, design_ref=design_ref)


claim("C17",
      "Rocq theorems over the Gallina model of GlobalDefender.stochastic_with_threshold for ALL tables, window sizes, "
      "histories, actions and draws: C17_iff (detection <-> long-enough episode, monitored type, threshold condition, draw "
      "below the probability), C17_run (the groupby-based longest run is exactly 'k consecutive occurrences exist'), "
      "C17_draw, C17_total; per-run obligations on the tables regenerated from global_defender.py (well-formedness, "
      "binary64 probabilities within 2^-56 of the written decimals, C17_float: binary64 ratio comparison = exact rational "
      "comparison for every window size up to 512). The model is tied to the code by a translator for the tables and an "
      "exhaustive differential run (>500k cases quick) of the model inside Coq against the real function with scripted draws; "
      "an independent monitor of the property statement supplies the failing input. 'The episode's history and nothing else' on "
      "the coordinator side: defender-on sessions with several episodes on the real coordinator (followed by the coordinator "
      "model), with a monitor that the history handed to the defender is exactly the actions answered in the current episode; one "
      "directed block (`long_window_cases`) puts a run or repeat that reaches its threshold, and one short of it, at the end, in the middle "
      "and at the start of windows of 6 to 20 (30) actions in which the type's share stays below its ratio; one "
      "directed session is an episode of more than 100 actions (no step limit, trajectories saved, draw scripted to 0) in which "
      "an action of the first step is repeated as action 101 - the repeat counts over the whole episode. "
      "The integration clause in the coordinator model (Proofs/CoordDetect.v), for every reachable state, any number of agents and "
      "any interleaving: C17_game_fail_only_by_detection (in one label the status of a non-Defender becomes Fail only in its own "
      "game handler, by a counted step in which the goal was not reached and the C17_iff condition holds for the new action and "
      "exactly the actions recorded in the agent's trajectory; that step ends the episode), C17_game_step_rule (every counted step "
      "applies goal, then detection on the trajectory's actions, then the step limit; a terminal status ends the episode in that "
      "step), C17_game_fail_reward (the reward task pays such an attacker the fail reward once and keeps the reason), with a "
      "concrete run on the generated tables. Partial: the model's detection function has one draw per run (sessions script it); "
      "independent draws per call are not modelled.",
      "Trusted: Coq kernel + VM; PrimFloat primitives (listed by Print Assumptions for C17_float only); translator "
      "harness/translate/defender.py; the harness replaces the module-level name `random` to script draws; "
      "decision logic is hand-modelled and tied by exhaustive differential execution only.",
      "machine-checked proof in Rocq (Coq 8.16) of a Gallina model + source translator + exhaustive model/code correspondence",
      "DESIGN.md section 7, C17")

claim("C14",
      "Rocq theorems over the Gallina model of Action.as_dict/to_json/from_dict/from_json/__eq__/__hash__ for ALL actions "
      "(any type, any subset and order of the eight supported parameter keys, any string/int/bool field values, valid IPv4 "
      "texts): C14_roundtrip (+ text level for any json library with loads . dumps = id), C14_eq / C14_order (dict equality, "
      "independent of insertion order), C14_hash (equal => equal hash, for any value hash), C14_distinct_*, C14_refuse "
      "(the decoder accepts exactly the documents that describe a supported action), C14_decoded_typed, refusal lemmas. "
      "Tie: translator of the codec's source shapes with per-run obligations Obl/CodecDescOk.v (match arms of from_dict, "
      "dataclass fields and defaults, from_dict = cls(**data), __eq__/__hash__ bodies, ActionType.from_string) and a "
      "differential run of encoder, decoder, equality and hash on 9 types x all 256 key subsets plus a malformed stream "
      "(>7000 cases quick), evaluated by vm_compute inside Coq; a direct round-trip/equality monitor supplies failing inputs; "
      "a wire probe sends actions with awkward legal texts (the letters of the end-of-message marker, quotes, backslashes, "
      "braces, non-ASCII) through the real AgentServer read loop and dispatcher and compares the actions the game recorded "
      "with the ones sent (value and hash); bogus type names must be refused there too; on two connections, messages of exactly "
      "one read buffer (a legal action padded with blanks to ProtocolConfig.BUFFER_SIZE bytes is played, text of that length that is "
      "not JSON is refused) must leave the next message of either connection untouched; a table of actions stored (pickled) by "
      "another interpreter must be found under the actions decoded from their JSON here (equal actions hash equally across interpreters). "
      "C14_type_names_exact (Proofs/TypeNames.v): the decoder accepts a type text only if it is the name of a supported type, bare or "
      "behind ONE leading 'ActionType.'; a per-run obligation pins the source of ActionType.from_string to that shape (D36).",
      "Trusted: Coq kernel + VM; translator harness/translate/codec.py; Python's json and ipaddress libraries enter as "
      "premises / as the IPv4-only validity function Model/Ipv4Text.v (IPv6 texts and ill-typed field values are outside "
      "the model); hand-written model tied by differential execution.",
      "machine-checked proof in Rocq (Coq 8.16) of a Gallina codec model + source-shape translator with per-run obligations + model/code correspondence",
      "DESIGN.md section 7, C14")

claim("C15",
      "Rocq theorems over the std++ (gset/gmap) model of GameState.as_dict/as_json/from_dict/from_json for ALL views: "
      "C15_dict, C15_json (all six parts incl. blocks and data with any size/type decode to the same view), "
      "C15_set_order / C15_map_order (the decoders do not depend on the order Python happens to write sets and dicts in), "
      "C15_eq (views are equal exactly when their six parts contain the same elements). Tie: the same source-shape "
      "translator and obligations as C14 (expressions that rebuild each GameState part in both decoders, as_dict literal, "
      "observation_as_dict keys) plus differential runs on random views, re-ordered documents and a malformed stream; "
      "Coordinator clause (Props/C15_coord.v over Model/Coord.v, Proofs/CoordObs.v; every reachable state, any number of "
      "agents, any interleaving): C15_response_is_held (whatever a handler step puts on a connection's queue says what the "
      "coordinator holds for THAT agent in the state reached: CREATED the view; OK view, reward, end flag; FORBIDDEN view, "
      "reward, reason, ended; RESET_DONE view, reward, end flag), from two new invariants proven for every label: "
      "C15_stored_observation (the stored observation equals the record unless the final reply is still parked at the "
      "end-of-episode barrier) and C15_created_view (a join handler parked at the start barrier announces the view held). "
      "The byte-level frame (one JSON document + end-of-message marker) is decided by monitors over the raw bytes of real "
      "in-process coordinator sessions, single-agent and multi-agent with collective resets and faults (these sessions are "
      "also followed by the coordinator model) - that part is partial: not a theorem. Whenever the coordinator answers, the view it "
      "holds must also be made of sets and dictionaries of sets of the documented classes (a list where a set belongs encodes "
      "the same but is not equal to what the response decodes to). Networks that differ only in their host bits (or are different texts "
      "of mask 0) are different elements: as views, as sets and as documents listing both (implementation and model inside Coq).",
      "Trusted: Coq kernel + VM; std++ 1.8; translator harness/translate/codec.py; json library as premise; IPv4-only "
      "address validity; the in-process loop driver and cyst stub for the session monitor.",
      "machine-checked proof in Rocq (Coq 8.16, std++) of a Gallina codec model + source-shape translator with per-run obligations + model/code correspondence + session monitor",
      "DESIGN.md section 7, C15")

W_NOTE = 'Trusted: Coq kernel + VM; std++ 1.8; the hand-written models Model/World.v and Model/Load.v are tied to worlds/NSEGameCoordinator.py by differential execution only (walks of the real step/reset/register_agent started through the real start_tasks, compared inside Coq after every operation); the cyst stub package; the Python reference harness/worldlib.py (the property statement used as monitor); IPv4 addresses as 32-bit numbers, strings interned.'
W_TECH = 'machine-checked proof in Rocq (Coq 8.16, std++) over a Gallina world model + model/code correspondence by walks + reference monitor'

claim("C02",
      "Rocq theorem C02_noop over the Gallina world model: for ALL worlds, ALL views (reachable or not) and ALL actions, if the "
      "action's precondition (source controlled, firewall allows source->target, action-specific guard) fails then step returns "
      "exactly the previous view and the identical world (Leibniz equality of every table); C02_pre_* spell the preconditions out "
      "per action type as the property states them; C02_whole_game (coordinator model running on the world model: such an action "
      "leaves the world as it is, the view stored for and reported to the agent is the view it had, nobody else's record changes). Tie: correspondence of Model/World.v with the six action implementations on "
      "walks over shipped and generated scenarios (firewall on/off, perturbed unreachable views, parameters over non-existing "
      "hosts/services/data); the ops whose precondition fails are the ones counted for this property; an independent Python "
      "reference of the statement supplies failing inputs. The walks span several episodes (a reset every 25 steps), use ONE "
      "start-position table per role for all its agents and episodes (as the coordinator does; it is compared with what was "
      "configured at every join and reset) and start positions that already hold data on the usual exfiltration target; generated topologies put public networks also into "
      "special-purpose blocks (TEST-NET, benchmarking, link-local) that are public by the RFC 1918 rule, and a firewall table that allows "
      "more than the scenario defines counts for this property.", W_NOTE, W_TECH, "DESIGN.md section 7, C02")
claim("C03",
      "Rocq theorems giving the exact effect of each action in closed form when its precondition holds (C03_scan, "
      "C03_find_services + C03_services_all, C03_find_data, C03_exploit, C03_exfiltrate + C03_shared, C03_block_connectivity, "
      "C03_block_recorded) and completeness of the loader against the scenario definition (C03_load_ifaces, C03_load_services, "
      "C03_load_data: EVERY datapoint of every service; *_exact: nothing else; C03_scan_complete). Tie: correspondence of "
      "Model/Load.v with _process_cyst_config on an independent reading of the scenario objects, of init_view with "
      "_create_state_from_view, and of Model/World.v on the ops whose precondition holds; Python reference monitor. The walks span "
      "several episodes (a reset every 25 steps: the effect of an action in episode 3 is still the one the scenario defines, whatever "
      "was blocked or exfiltrated in episodes 1 and 2) with one start-position table per role.",
      W_NOTE, W_TECH, "DESIGN.md section 7, C03")
claim("C08",
      "Rocq theorems: no action changes the static tables or pristine copies (C08_static); after ANY sequence of actions by any "
      "agents reset yields the initially loaded world (C08_restore: reset (play (load sc) l) = load sc), hence identical "
      "observation sequences for the same script in every episode (C08_independent); for the WHOLE game (coordinator model running "
      "on the world model, Model/Game.v): C08_whole_game (whatever was played by however many agents in whatever interleaving, the "
      "reset task leaves exactly the pristine scenario world), C08_whole_game_static. Tie: correspondence on multi-episode walks "
      "with resets (tables compared with the model after every reset) and a monitor comparing the implementation's tables after "
      "each reset with their initial condition; an episode replay probe plays one rich script (exploits, an exfiltration between two "
      "hosts that both hold data, one to the outside host, a block) in four consecutive episodes, firewall on and off - same "
      "observations every episode, live tables and pristine copies untouched after every reset (in the coordinator sessions also under dynamic addresses, read back through the "
      "published address map).", W_NOTE + " The theorems are for static addresses (dynamic re-labelling is C13).", W_TECH, "DESIGN.md section 7, C08")
claim("C11",
      "Rocq theorems over all interleaved action sequences of any number of agents: C11_invariant (every view stays well-formed: "
      "controlled <= known hosts, services only for known hosts, data only on controlled hosts; and anchored: hosts exist, services "
      "belong to the host's node, data is located on the host's node), C11_mono (networks, hosts, controlled hosts, data and blocks "
      "per host never shrink), with the one-step lemmas; C11_whole_game (Proofs/CoordViews.v, Proofs/Game.v: in every reachable state of "
      "the coordinator model running on the world model - joins, actions, departures, faults, rewards, resets in any interleaving - "
      "every agent's stored view is well formed and anchored in the current world, given well-formed anchored start positions), "
      "C11_whole_game_mono (Proofs/CoordViewStep.v: a label changes a stored view only by the world's answer to the agent's own "
      "action or by the reset; hence within an episode every agent's view only grows, whatever happens in between), "
      "C11_lifting (the general principle: any world/view relation kept by the world model is kept by the whole game). 'A returned view is never modified later' is a heap-aliasing statement the "
      "value-semantic model cannot express: it is decided by deep snapshots of every GameState returned by register/step/reset "
      "re-compared after every later step (partial, labelled so). Under dynamic addresses (outside the static world model) a probe "
      "checks every returned view of an Attacker with a random start and a Defender with all_local, over three episodes, for "
      "well-formedness and anchoring in the current re-labelled world.", W_NOTE, W_TECH, "DESIGN.md section 7, C11")
claim("C12",
      "Rocq theorems over the multi-agent state machine: C12_own / C12_no_gift (an action of agent b leaves every other agent's "
      "view exactly as it was), C12_channel (a step depends on the world only through hosts, networks, services, data, firewall and "
      "visible blocks), C12_world_changes (another agent can change those only by a successful exfiltration or BlockIP), C12_coordinator_no_channel "
      "(the coordinator adds no other channel: the handler of one address leaves every other agent's record untouched). Tie: "
      "correspondence on interleavings of 2-3 agents sharing hosts (common exfiltration target, overlapping control) plus deep "
      "snapshots of all agents' stored views (aliasing is outside the value-semantic model: partial), over several episodes; a "
      "coordinator-level isolation probe (two Attackers with different hosts, a Defender whose goal uses the documented "
      "'all_attackers' wildcard, a Benign agent; scenario1 and three_nets): whoever sends a message, the view the coordinator holds "
      "for every other agent is compared field by field before and after.", W_NOTE, W_TECH, "DESIGN.md section 7, C12")

C_NOTE = ("Trusted: Coq kernel + VM; the hand-written LTS Model/Coord.v is tied to coordinator.py by the trace-following correspondence "
          "(every atomic asyncio task step of real sessions is a label the model must enable and after which the whole observable state "
          "must agree) and by the dispatch translator with per-run obligations (Obl/DispatchOk.v); the in-process loop driver relies on "
          "CPython 3.12 asyncio internals; the cyst stub; the world is an oracle in the executable instance (tied separately, C02/C03); "
          "asyncio scheduling is abstracted to 'any enabled atomic segment may run'; TCP to one message per read with explicit "
          "EOF/read-error/write-error events; connection addresses are fresh in the model - that the coordinator keeps nothing under a "
          "departed agent's address is checked by the address-reuse twin (each session replayed with later connections coming from "
          "departed agents' addresses must answer identically); the protocol and the model know no time-outs - a monitor counts the "
          "timers armed beyond the idle coordinator's heart-beats and, if there are any, advances a virtual clock and examines what "
          "the agents receive; per-run obligation C01_no_timeouts: the only time-dependent calls in coordinator.py are its two idle "
          "heart-beat sleeps.")
C_TECH = "machine-checked proof in Rocq (Coq 8.16) over a labelled-transition-system model of the coordinator (inductive invariant for all label sequences) + trace-following model/code correspondence + source-shape translator + direct monitor"

claim("C01",
      "Rocq theorems for ALL label sequences (any number of agents, any messages, any interleaving of task steps): C01_tokens (token "
      "conservation: an unanswered request is in exactly one of action queue / handler task / response queue; idle connections have "
      "none), C01_alternation (responses never outnumber requests, at most one outstanding; QuitGame is answered by closing), "
      "C01_answer_fits / C01_keeps_kind (Proofs/CoordKinds.v: a handler step puts at most one item, on its own connection's "
      "queue, fitting the request it was spawned for, and a parked handler keeps the kind of its request), C01_queue_bound, C01_quiescent (when nothing can run, every awaited answer is held by a handler parked at one of the three "
      "barriers with its wait unreleased), C01_parked_have_agents; per-run obligation C01_dispatch_total (every action type incl. "
      "BlockIP is routed to a replying handler; default and parse-failure arms reply). C01_idle_unmet (barrier invariant K, Proofs/CoordBarrier.v: in every reachable idle state the barrier "
      "holding an unreleased wait is genuinely unmet - somebody has not finished / has not asked / the start event is clear - so "
      "nothing waits for the server). C01_progress / C01_no_livelock (Proofs/CoordMeasure.v: a measure that strictly decreases with every task "
      "step, so at most mu(s) task steps separate any reachable state from the next idle state or input: an answer whose barrier "
      "is met is delivered after finitely many steps). Partial: "
      "'start event clear => fewer than required players' (false for an unconstrained scheduler; true under asyncio's FIFO start "
      "of handler tasks) are decided by the monitor (barrier conditions evaluated on the implementation's tables at every "
      "quiescent point).", C_NOTE, C_TECH, "DESIGN.md section 7, C01")
claim("C04",
      "Rocq theorems (decision rules of the coordinator model, all states): C04_status (Success if goal, else Fail if detected, else "
      "TimeoutReached at the step limit, else unchanged), C04_step (counters, end rule incl. 'no attacker playing any more', final "
      "results wait at the rewards barrier), C04_reply, C04_absorbing (+frame: FORBIDDEN with the same view, reward, reason; no "
      "counter changes), C04_defender_reason; across labels, for every reachable state and every continuation: C04_reason_stays / "
      "C04_late_defender (Props/C04_reason.v: an attacker's reason does not change until the reset task runs, whatever it asks for; a "
      "Defender paid at a later run of the reward task in the same episode is told Fail as long as a successful attacker is in the game; C05_benign_unpaid: the reward task leaves a Benign agent's record as it is), C04_stays_ended (ended, "
      "step counter and view frozen until the reset task or departure), C04_limit (Proofs/CoordLimit.v: in every reachable state an "
      "agent with step limit m > 0 has at most m steps and has ended once it has m), C04_origin, C04_one_label (complete case list of what one label can do "
      "to one agent's record). The goal check itself (Model/Goal.v = GameCoordinator.goal_check on the views of the world model; "
      "Props/C04_goal.v): C04_goal_spec (the check holds exactly when every network, host, controlled host the goal lists is in the "
      "view and every host named under services / data / blocks has an entry containing the listed items), C04_goal_empty, "
      "C04_goal_mono, C04_step_incl / C04_goal_stable_step (every action but FindServices only adds to every part of the view; a "
      "goal without services, once reached, stays reached), and in the whole game (coordinator model on the world model): "
      "C04_game_success (on every counted step the goal check on the new view decides first: reached = Success and ended in that "
      "step; not reached = never newly Success), C04_game_goal_stable. Tie: trace-following correspondence; goal-check "
      "correspondence (generated goal/view pairs through the real goal_check and through goal_ok inside Coq, plus the reference "
      "verdict 'goal contained in view'); monitor: reference of the rule over all responses (reference goal check independent "
      "of coordinator.goal_check).", C_NOTE, C_TECH, "DESIGN.md section 7, C04")
claim("C05",
      "Rocq theorems: C05_step, C05_bonus (bonus by role and outcome, marks the agent rewarded), C05_once (a rewarded agent is left "
      "exactly as it is when the reward task fires again), C05_only_all_ended, C05_effect, C05_forbidden, C05_reset; across labels, by induction over all label sequences (invariant "
      "Inv2, Proofs/CoordInv2.v, CoordAgentStep.v): C05_once_episode (from any reachable state in which an agent is rewarded, "
      "every continuation without a run of the reset task leaves its reward, status, view and counter exactly as they are while it "
      "is in the game), C05_rewarded_ended (no bonus before the end), C05_reward_moves; C05_rewards_scale (Props/C05_scale.v, "
      "Proofs/CoordScale.v: rewards enter only as the three configured numbers and their sums - the transition system with the "
      "configured rewards multiplied by any k is the original one with every stored, sent and recorded reward multiplied by k and "
      "nothing else changed; it is also why following fractional rewards at a scale at which they are whole numbers is exact). The "
      "monitor checks the same over every task step of real sessions, and every session is played a second time on the real "
      "coordinator with the configured rewards divided by 16 (all answers must be the original ones with the rewards divided by 16). "
      "Directed sessions cover all three roles with three required players (a Defender that joins an episode in which an attacker has "
      "already succeeded - and has since asked for a reset - is still paid Fail) and a Defender that uses up a step limit of its own "
      "while the attacker is playing (paid by the attackers' outcome alone), three players joining Attacker, Defender, Attacker, and a "
      "success reward of 0 next to a non-zero fail reward.",
      C_NOTE, C_TECH, "DESIGN.md section 7, C05")
claim("C06",
      "Across labels (Props/C04_reason.v, Proofs/CoordReason.v): C04_reason_stays (the reason an attacker ended with does not change "
      "until the reset task runs, whatever it asks for), C04_defender_paid_by_outcome, C04_late_defender (a Defender paid at a later "
      "run of the reward task in the same episode is told Fail as long as a successful attacker is in the game). "
      "Rocq theorems: C06_end (handlers waiting for the end are released only by the reward task, which does nothing unless every "
      "agent in the game has finished), C06_end_all (then all are released in one step: no lost wake-up), C06_quiescent, C06_nonfinal "
      "(non-final observations are answered in the segment that executed the action), C06_parked_final (in every reachable state a "
      "handler held at the end barrier belongs to a finished agent and reports exactly the stored view). C06_invariant / C06_unmet (no lost wake-up for all three barriers in every "
      "reachable state), C06_start (start event set only while at least the required number of players is in the game). Partial: "
      "'exactly when enough players joined' for the start barrier under reordering of a departure and a join is decided by the "
      "trace-following correspondence and the quiescence monitor.", C_NOTE, C_TECH, "DESIGN.md section 7, C06")
claim("C07",
      "Rocq theorems: C07_collective (the reset task does nothing unless the game is non-empty and every agent has asked), "
      "C07_voluntary (an agent that has not asked keeps its whole record across any run of the reset task), C07_fresh, C07_done; across labels: C07_request_stays (a registered request stays registered until the reset task runs or "
      "the agent leaves), C07_request_handler (in every reachable state a registered request has its handler waiting for the "
      "reset), C07_unmet (an idle RESET_DONE wait coexists with an agent that has not asked), C07_cleared_by_reset. "
      "Monitor: reset steps and foreign changes of steps/view/end flag in every task step; at every effective reset the hosts an "
      "agent controls in its fresh view exist in the current (possibly re-labelled) world and the world tables, read back "
      "through the published address map, equal the pristine ones.", C_NOTE, C_TECH, "DESIGN.md section 7, C07")
claim("C09",
      "Per-run obligations regenerated from coordinator.py (Obl/DispatchOk.v): C09_required_params (the parameter table of _validate_game_action is exactly the documented one for the six game actions, no entry for join/quit/reset), C09_validation_shape (present, of its type, hashable; a text reason otherwise), C09_validation_order (not joined, then invalid, and only then anything that counts or plays), C09_parse_then_dispatch (nothing that can raise stands between the guarded parse and the dispatch), C09_default_replies, C09_parse_failure_replies. "
      "Rocq theorems: C09_garbage / C09_reject (every bad request - garbage, second join, join without agent_info or with an unknown "
      "role, game/reset before joining, invalid parameters - is answered BAD_REQUEST), C09_frame (and changes nothing but the "
      "sender's response queue: agents, world, events, files, other connections untouched), C09_others / C09_world (the handler of one address leaves every other agent's record untouched; only game actions and joins "
      "touch the world), C09_alive, C09_no_replay; per-run "
      "obligations on the dispatcher source (parse failure replies and continues; default arm replies). The malformed stream of the "
      "sessions includes well-formed requests followed by more bytes (garbage, a second request, the end-of-message mark); a "
      "response-pairing monitor reports any bad request answered with OK / CREATED / RESET_DONE.", C_NOTE, C_TECH, "DESIGN.md section 7, C09")
claim("C10",
      "Rocq theorems: C10_others (every label except the two background tasks leaves the records of all agents but at most one "
      "exactly as they are), C10_forget (after the quit handler the address is in no per-agent table and every other agent's record is "
      "exactly as before), C10_slot/C10_count (slot released exactly once; counter = live connections in every reachable state), "
      "C10_tokens (a closed connection leaves only its forwarded QuitGame), C10_barriers, C10_rejoin; per-run obligation: every "
      "abnormal end of a connection forwards QuitGame. Partial: a peer vanishing while its request is parked is seen only at the next "
      "I/O (TCP/asyncio).", C_NOTE, C_TECH, "DESIGN.md section 7, C10")
claim("C16",
      "Rocq theorems: C16_step (the triple appended to the trajectory is produced in the same step and with the same reward as the OK "
      "response), C16_refused, C16_frame, C16_handout, C16_files, C16_files_exact / C16_files_frame (the reset task appends exactly one record per agent in the game, nothing else ever writes); for every reachable state: C16_wf (one more state than actions, as many rewards "
      "as actions), C16_one_label (one label leaves a trajectory alone, appends exactly the answered triple, or restarts it). Monitor: last_trajectory of every RESET_DONE compared with the log "
      "of OK responses the harness received; trajectory files compared with the model after every step (sessions run in a scratch "
      "working directory without a trajectories folder). A long-session probe plays 130 (thorough: 400) short episodes of three "
      "agents (one of each role) in ONE coordinator and requires after every collective reset exactly one more record - the "
      "episode just played - in every agent's file. One configuration in five has fractional rewards (binary fractions down to "
      "1/16, finer than two decimals), followed by the Z-valued model at scale 16.", C_NOTE, C_TECH, "DESIGN.md section 7, C16")
claim("C18",
      "Rocq theorems for all label sequences: C18_bound (served connections <= required players in every reachable state), C18_count "
      "(the counter equals the number of connections being served: every end gave its slot back exactly once), C18_reject, "
      "C18_admit, C18_release; per-run obligations on the connection handler source (admission check, cleanup, limit = required "
      "players). Real sockets are not exercised (in-memory streams).", C_NOTE, C_TECH, "DESIGN.md section 7, C18")

claim("C19",
      "Rocq theorems over the initial-view model (Model/Load.v init_view): C19_view (every listed network, host and controlled host "
      "of the start position is in the initial view; controlled hosts are known; no blocks at the start), C19_wildcards / "
      "C19_all_local_all / C19_all_local ('random' = one of the recorded picks, 'all_local' = exactly the addresses of the private "
      "networks), C19_own_nets; per-run obligations on utils.ConfigParser and the start-up code (Obl/C19_defaults.v): every scalar "
      "setting is read from its documented key and falls back to the documented default (no step limit, zero rewards, one player, "
      "switches off), and start_tasks reads each of them; M5 (Model/Config.v): the regenerated getter descriptors are interpreted "
      "by `read` on configuration trees - C19_absent_fallback, C19_present_value, C19_escapes, and per run (Obl/C19_model.v) "
      "C19_absent_gives_documented_default: for every getter of the source and EVERY configuration tree in which the key or a "
      "section on its path is missing, the getter returns the documented default - tied by running generated well-formed and "
      "malformed trees through the real getters and through the model inside Coq. M5 part 2 (Model/ConfigParts.v): the section "
      "readers and the start-position / win-condition assembly as functions on the configuration tree, error paths included - "
      "C19_hosts_listed / C19_hosts_only (the parsed hosts are exactly the listed valid addresses and wildcards), "
      "C19_networks_only, C19_data_keys, C19_data_items, C19_absent_parts_empty, and C19_config_to_view (from the configuration "
      "TREE to the initial view: every valid address listed under controlled_hosts is controlled and known, 'all_local' gives "
      "every private address, listed known hosts and well-formed networks are known) - tied by the section-reader "
      "correspondence (generated trees through the real get_player_start_position / get_player_win_conditions and through the "
      "model inside Coq; parsed parts or the escaping exception must agree). A full-stack probe with dynamic addresses "
      "checks that agents joining after re-labellings get the configured start position; a switch probe plays all 27 "
      "true/false/absent combinations of the global-defender, trajectory and firewall switches and checks each switch's "
      "behaviour-level effect in every combination; a goal probe plays one exfiltration script under five goals in two "
      "delivery orders and compares the end flag after every answer with the reference subset check of the configured goal; a "
      "required-players probe (absent / 1 / 2 / 3) checks that no episode - the first or a later one after a departure - starts "
      "before the configured number of players is in the game; the switch probe goes on for four episodes with a block in each "
      "(every episode starts with the configured firewall, however many blocks came before); under dynamic addresses an episode may "
      "end with Success only when the view knows the configured goal hosts under the current labelling; a wildcard-order probe hands every permutation of {all_local, "
      "the outside host, random, a local host} to the view builder (the reader keeps the items in a set, so their order is Python's) "
      "and requires all local addresses plus every listed address each time. "
      "The section readers (glue) are decided by correspondence: generated "
      "configurations over all subsets of optional keys go through the real ConfigParser, start_tasks and joins; parsed start "
      "position / win condition are compared with the listed items, the join reply with the configuration, the initial view with "
      "the model inside Coq and with the statement (monitor). One known finding: the documented 'all_attackers' wildcard (D25).",
      "Trusted: Coq kernel + VM; std++; translator harness/translate/confdefaults.py; yaml.safe_load; the section readers are tied by "
      "differential execution against a reference reading of the configuration, not modelled in Coq; cyst stub; loop driver.",
      "machine-checked proof in Rocq (Coq 8.16, std++) of the initial-view model + source translator with per-run obligations + configuration correspondence",
      "DESIGN.md section 7, C19")

claim("C13",
      "Rocq theorems about what a valid re-labelling guarantees for the re-keyed world (Model/Remap.v): C13_one_to_one_ips/nets, "
      "C13_shape (masks kept, private stays private, public stays public, every address inside its network), C13_distances "
      "(all private networks shift by one offset), C13_node_identity + C13_services_data (hosts keep node, services, data), "
      "C13_membership, C13_connections(+_both_ways) (network membership and allowed connections are the old ones read through the "
      "mapping). valid_mapping is a boolean evaluated INSIDE Coq on every re-labelling the implementation performs; the model re-keys "
      "its own world with the implementation's published step and must arrive at the implementation's tables, initial views and "
      "step results on the re-labelled world (several consecutive resets, shipped and generated scenarios); monitors check that "
      "the published maps compose and that goal sets, start positions and goal description follow (also for a role that was "
      "VACANT while the world was re-labelled: its only agents leave, another role asks for the reset alone, an agent of the vacant role "
      "joins afterwards - twice in a row); the generator's random draws are "
      "scripted at the boundaries of the RFC 1918 blocks (a base at the top of a block must be rejected by the retry) and the "
      "accepted re-labelling is checked for private-stays-private, distances, one-to-one, addresses inside their networks; 60 (150) "
      "CONSECUTIVE re-labellings per world, each starting from the labels the previous one produced, must all be produced and valid. Equivariance (Proofs/Equivariance.v): C13_equivariant_step / "
      "C13_equivariant_play - every one of the six actions, and by induction every action sequence, commutes with a re-labelling "
      "that is one-to-one on the addresses and networks in play and keeps the members of a scanned network (re-keyed world, "
      "translated view, translated actions give the re-keyed world and the translated view); C13_equivariant_ready states the "
      "hypotheses as the boolean `equiv_ready`, which is evaluated inside Coq for the mapping current->original addresses before "
      "every action the implementation executes on a re-labelled world (when action and view mention scenario objects only). "
      "C13_start_positions (Proofs/InitEquiv.v): the initial view built on the re-keyed world from the translated start position "
      "is the translated initial view, on the scenario's objects ('all_local', random picks, neighbouring scenario networks "
      "included). A full-stack probe on the real coordinator checks joins and resets after re-labellings. "
      "One known finding (sampler fails for private networks in different RFC 1918 blocks).",
      "Trusted: Coq kernel + VM; std++; Faker/random are an oracle (the published maps are checked, their distribution is not); "
      "hand-written Remap/World/Load models tied by differential execution; cyst stub.",
      "machine-checked proof in Rocq (Coq 8.16, std++) over a re-labelling model + in-Coq validity check of every observed re-labelling + model/code correspondence",
      "DESIGN.md section 7, C13")

claim("C20",
      "What a theorem can carry: C20_order_sets / C20_order_dicts (the value a response decodes to does not depend on the order in "
      "which Python wrote its sets and dictionaries - the order that varies with PYTHONHASHSEED) and C20_canonical (equal canonical "
      "encodings <-> equal views), so comparing decoded transcripts across processes is well defined; and over the coordinator model "
      "(Model/Coord.v, Proofs/CoordRename.v) C20_peer_addresses: the transition system commutes with every one-to-one renaming of the "
      "peer addresses - the same events from other addresses (ephemeral ports differ from run to run) are enabled exactly when the "
      "originals are, consume the world's draws in the same order, write the same files and send every connection what it was sent "
      "before (C20_peer_addresses_observables), and the renamed state is idle exactly when the original is (C20_peer_addresses_quiescent); tied to coordinator.py by the trace-following correspondence and by playing every "
      "session a second time on the real coordinator from renamed, order-reversed peer addresses (identical answers required). The rest of the property - "
      "independence of process, hash randomisation and wall-clock time, and the reproducible configuration hash - is a runtime "
      "property no executable model exhibits; it is decided by cross-process runs: identical multi-episode probe sessions (three attackers with random start hosts and a "
      "defender, collective resets, refused requests of every kind; also with the global defender on, so that its detection "
      "draws are part of the transcripts; every worker plays its session twice in one process, with two coordinators started one "
      "after the other on the same configuration file, the second one reached from other peer addresses in reversed order, and both "
      "after an attacker-only game on a configuration without a Defender section was hosted in the same process; every join the configuration allows must be confirmed) "
      "(static and dynamic addresses, all playable shipped scenarios, several seeds) in separate interpreter processes with "
      "different PYTHONHASHSEED values must give identical decoded transcripts, address maps and hashes; hashes must differ between "
      "scenarios. Labelled partial.",
      "Trusted: Coq kernel; std++; the cross-process harness (harness/c20_worker.py); the in-process loop driver and the session generators for the coordinator part; SHA-256 opaque; only the shipped scenarios.",
      "machine-checked proof in Rocq (Coq 8.16) of order-independence of decoding and of address-renaming equivariance of the coordinator model + trace-following correspondence + cross-process differential runs (partial: the runtime part is not a theorem)",
      "DESIGN.md section 7, C20")


def main():
    hooks = {
        "guard": "NETSECGAME_VERIF",
        "enable": "no source hooks are needed: checks run the repository's code in-process with PYTHONPATH=/verif/harness/pyshim:/repo (stub of the external cyst library first on the path) and observe it by introspection; the variable is exported by ./check for completeness",
        "baseline_off_cmd": "cd /repo && /venv/bin/python -m pytest -ra -q -p no:cacheprovider --timeout=900 --continue-on-collection-errors",
        "source_commits": [],
        "add_only": True,
    }
    checks = []
    na = []
    for i in range(1, 21):
        pid = f"C{i:02d}"
        if pid in CLAIMED:
            c = CLAIMED[pid]
            checks.append({
                "property_id": pid,
                "quick_cmd": f"./check {pid} --tier quick",
                "thorough_cmd": f"./check {pid} --tier thorough",
                "evidence_file": f"evidence/{pid}.json",
                "replay_cmd_template": f"./check {pid} --replay {{path}}",
                "engine": "rocq-model",
                "level_claimed": {"category": "proof", "text": c["text"], "design_ref": c["design_ref"]},
                "level_note": c["note"],
                "technique": c["technique"],
            })
        else:
            na.append({"property_id": pid, "reason": NOT_YET})
    m = {
        "version": 1,
        "setup_cmd": "./setup.sh",
        "hooks": hooks,
        "engines": [{"name": "rocq-model", "path": "coq/", "serves_properties": sorted(CLAIMED),
                     "kind_free_text": "Gallina models + theorems (Coq 8.16.1), source translators (harness/translate), differential correspondence harness (harness/) driving the real code in-process"}],
        "checks": checks,
        "notes": "Fixes of genuine defects are separate 'fix:' commits in /repo, listed in known_findings.json.",
        "not_applicable": na,
    }
    with open(os.path.join(VERIF, "MANIFEST.json"), "w") as f:
        json.dump(m, f, indent=1)


if __name__ == "__main__":
    main()
