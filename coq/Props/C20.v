(* C20 - Same configuration and seed give the same game and the same config hash.
   What a theorem can carry here: the comparison of transcripts across processes is well defined -
   the value a response decodes to does not depend on the order in which Python happened to write
   its sets and dictionaries (that order varies with PYTHONHASHSEED), and the canonical encoding
   identifies views.  Independence of process, hash randomisation and time itself is decided by the
   cross-process runs of props/c20.py (partial). *)
From stdpp Require Import gmap strings.
From NSG Require Import Model.Json Model.Ipv4Text Model.Codec Model.ViewCodec Proofs.ViewCodecFacts.
Open Scope string_scope.

Theorem C20_order_sets : forall {A} `{Countable A} (f : json -> option A) l l',
  l ≡ₚ l' -> dec_set f (Some (JArr l)) = dec_set f (Some (JArr l')).
Proof. intros A ? ?. exact (dec_set_perm (A := A)). Qed.

Theorem C20_order_dicts : forall {A} `{Countable A} (f : json -> option A) o o',
  NoDup (o.*1) -> o ≡ₚ o' -> dec_map f (Some (JObj o)) = dec_map f (Some (JObj o')).
Proof. intros A ? ?. exact (dec_map_perm (A := A)). Qed.

(* equal canonical encodings <-> equal views (for views whose addresses are valid) *)
Theorem C20_canonical : forall v w, view_ok v -> view_ok w -> enc_view v = enc_view w -> v = w.
Proof.
  intros v w Hv Hw He.
  assert (H1 := dec_enc_view_gen false v Hv). assert (H2 := dec_enc_view_gen false w Hw).
  rewrite He in H1. congruence.
Qed.

Print Assumptions C20_order_sets.
Print Assumptions C20_order_dicts.
Print Assumptions C20_canonical.
