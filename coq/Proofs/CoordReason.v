(* The reason an attacker (or a benign agent) ended with stays what it is until the reset task runs - whatever it or anybody else
   asks for in the meantime (reset requests, refused actions, departures and joins of others, further runs of the reward task).
   Consequence: a Defender that is paid at a LATER run of the reward task in the same episode (it joined, or finished, after the
   others were paid) is still told Fail when an attacker that succeeded is in the game. *)
From Coq Require Import ZArith NArith List Bool Arith Lia.
From NSG Require Import Model.Coord Proofs.CoordBase Proofs.CoordInv Proofs.CoordInvConn Proofs.CoordInvDispatch
  Proofs.CoordInvHandler Proofs.CoordDirect Proofs.CoordInv2 Proofs.CoordAgentStep.
Import ListNotations.

Section Reason.
  Context {V W G : Type}.
  Variable wstep : W -> V -> G -> W * V.
  Variable wreset : W -> W.
  Variable winit : W -> role -> W * V.
  Variable goal : role -> V -> bool.
  Variable detect : list G -> G -> bool.
  Variable cfg : config.

  Notation state := (@state V W G).
  Notation agent := (@agent V G).
  Notation label := (@label G).
  Notation Inv2 := (@Inv2 V W G).
  Notation exec := (@exec V W G wstep wreset winit goal detect cfg).
  Notation execs := (@execs V W G wstep wreset winit goal detect cfg).
  Notation achange := (@achange V G goal detect cfg).
  Notation gone_along := (@gone_along V W G wstep wreset winit goal detect cfg).

  Lemma achange_reason_kept (a a' : agent) (l : label) :
    achange a l a' -> a_ended a = true -> l <> LRun TReset -> a_role a <> RDefender ->
    a_ended a' = true /\ a_role a' = a_role a /\ a_status a' = a_status a.
  Proof.
    intros H He Hl Hr. destruct H; try congruence; try (simpl; repeat split; assumption).
    unfold reward_agent. destruct (_ || _); [repeat split; assumption|].
    destruct (a_role a) eqn:Er; simpl; try (repeat split; assumption). congruence.
  Qed.

  Theorem reason_along ls (s s' : state) c a :
    Inv2 s -> execs s ls = Some s' -> no_reset ls -> alookup c (agents s) = Some a -> a_ended a = true -> a_role a <> RDefender ->
    (exists a', alookup c (agents s') = Some a' /\ a_ended a' = true /\ a_role a' = a_role a /\ a_status a' = a_status a) \/
    gone_along s ls c.
  Proof.
    intros Hi He Hok Ha Hend Hr.
    apply (along wstep wreset winit goal detect cfg (fun a' => a_ended a' = true /\ a_role a' = a_role a /\ a_status a' = a_status a)
                 (fun l => l <> LRun TReset)) with (a := a); try assumption; [|repeat split; reflexivity || assumption].
    intros a0 a1 l Hc Hl (H1 & H2 & H3).
    assert (Hr0 : a_role a0 <> RDefender) by congruence.
    destruct (achange_reason_kept a0 a1 l Hc H1 Hl Hr0) as (K1 & K2 & K3). repeat split; congruence.
  Qed.

  Theorem reason_stays_reachable w ls0 ls (s s' : state) c a :
    execs (init_state w) ls0 = Some s -> execs s ls = Some s' -> no_reset ls ->
    alookup c (agents s) = Some a -> a_ended a = true -> a_role a <> RDefender ->
    (exists a', alookup c (agents s') = Some a' /\ a_ended a' = true /\ a_role a' = a_role a /\ a_status a' = a_status a) \/
    gone_along s ls c.
  Proof. intros H0. apply reason_along. eapply inv2_reachable; eauto. Qed.

  (* the reward task, whenever it pays: a Defender that has ended and is not yet paid gets Fail if an attacker with reason Success is
     in the game, Success otherwise *)
  Lemma alookup_In {A} c (l : list (addr * A)) x : alookup c l = Some x -> In (c, x) l.
  Proof.
    induction l as [|[k y] tl IH]; simpl; [discriminate|]. destruct (N.eqb c k) eqn:E.
    - intros [= ->]. apply N.eqb_eq in E. subst. left. reflexivity.
    - intros H. right. apply IH, H.
  Qed.

  Definition attacker_succeeded (l : list (addr * agent)) : Prop :=
    exists k x, In (k, x) l /\ a_role x = RAttacker /\ a_status x = SSuccess.

  Lemma rewards_run_defender (s s' : state) c d :
    rewards_run cfg s = Some s' -> all_ended (agents s) = true ->
    alookup c (agents s) = Some d -> a_role d = RDefender -> a_ended d = true -> a_rewarded d = false ->
    exists d', alookup c (agents s') = Some d' /\ a_rewarded d' = true /\
      (a_status d' = SFail <-> attacker_succeeded (agents s)) /\ (a_status d' = SSuccess <-> ~ attacker_succeeded (agents s)).
  Proof.
    unfold rewards_run. intros H Hall Hd Hrole Hend Hrew.
    destruct (negb (ev_end s)); [discriminate|]. rewrite Hall in H. cbn [negb] in H. injection H as <-.
    cbn [agents set_handlers set_ev_end set_agents].
    set (succ := existsb _ (agents s)).
    assert (Hl : forall (l : list (addr * agent)), alookup c l = Some d ->
              alookup c (map (fun x => (fst x, reward_agent cfg succ (snd x))) l) = Some (reward_agent cfg succ d)).
    { induction l as [|[k x] tl IH]; simpl; [discriminate|]. destruct (N.eqb c k); [intros [= ->]; reflexivity | exact IH]. }
    exists (reward_agent cfg succ d). split; [apply Hl, Hd|].
    unfold reward_agent. rewrite Hrew, Hend, Hrole. cbn. split; [reflexivity|].
    assert (Hs : succ = true <-> attacker_succeeded (agents s)).
    { unfold succ, attacker_succeeded. rewrite existsb_exists. split.
      - intros ([k x] & Hin & Hb). simpl in Hb. apply andb_true_iff in Hb. destruct Hb as [Hb1 Hb2].
        exists k, x. split; [exact Hin|]. split; [destruct (a_role x); simpl in Hb1; congruence | destruct (a_status x); simpl in Hb2; congruence].
      - intros (k & x & Hk & Hro & Hst). exists (k, x). split; [exact Hk|]. simpl. rewrite Hro, Hst. reflexivity. }
    destruct succ; split; split; intros H; try reflexivity; try discriminate.
    - apply Hs. reflexivity.
    - exfalso. apply H, Hs. reflexivity.
    - apply Hs in H. discriminate.
    - intros K. apply Hs in K. discriminate.
  Qed.

  (* an attacker that has succeeded and is still in the game decides the outcome of every Defender that is paid later in the episode *)
  Theorem late_defender_fail w ls0 ls (s s1 s2 : state) c a k d :
    execs (init_state w) ls0 = Some s -> execs s ls = Some s1 -> no_reset ls ->
    alookup c (agents s) = Some a -> a_ended a = true -> a_role a = RAttacker -> a_status a = SSuccess ->
    rewards_run cfg s1 = Some s2 -> all_ended (agents s1) = true ->
    alookup k (agents s1) = Some d -> a_role d = RDefender -> a_ended d = true -> a_rewarded d = false ->
    (exists d', alookup k (agents s2) = Some d' /\ a_rewarded d' = true /\ a_status d' = SFail) \/ gone_along s ls c.
  Proof.
    intros H0 H1 Hnr Ha Hend Hro Hst Hrun Hall Hd Hdr Hde Hdw.
    assert (Hnd : a_role a <> RDefender) by congruence.
    destruct (reason_stays_reachable w ls0 ls s s1 c a H0 H1 Hnr Ha Hend Hnd) as [(a' & Ha' & _ & Hr' & Hs')|Hg]; [|right; exact Hg].
    left. destruct (rewards_run_defender s1 s2 k d Hrun Hall Hd Hdr Hde Hdw) as (d' & Hd' & Hw' & Hf & _).
    exists d'. split; [exact Hd'|]. split; [exact Hw'|]. apply Hf. exists c, a'. split; [apply alookup_In, Ha'|]. split; congruence.
  Qed.

  (* a Benign agent gets no bonus and is never marked rewarded: the reward task leaves its record exactly as it is - so nothing
     may wait for a Benign agent to BE marked *)
  Lemma reward_agent_benign b (a : agent) : a_role a = RBenign -> reward_agent cfg b a = a.
  Proof. intros H. unfold reward_agent. destruct (_ || _); [reflexivity|]. rewrite H. reflexivity. Qed.
End Reason.
