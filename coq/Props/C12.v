(* C12 - Agents affect each other only through the shared network, never via views.
   Statements only; proofs in Proofs/WorldInv.v and Proofs/CoordIsolation.v. *)
From stdpp Require Import gmap.
From Coq Require Import ZArith NArith.
From NSG Require Import Model.Coord Proofs.CoordIsolation Model.World Proofs.WorldStep Proofs.WorldInv.

(* an action of agent b leaves the view of every other agent exactly as it was *)
Theorem C12_own : forall s b a ag, ag <> b -> snd (mstep s b a) !! ag = snd s !! ag.
Proof. exact mstep_others. Qed.

(* no agent gains knowledge or control (hence no win) merely because another agent acted *)
Theorem C12_no_gift : forall s b a ag v, ag <> b -> snd s !! ag = Some v -> snd (mstep s b a) !! ag = Some v.
Proof. exact no_gift. Qed.

(* the only channel: an agent's next view depends on the world through its live tables alone;
   two worlds that agree on hosts, networks, services, data, firewall and visible blocks give the
   same result, whatever other agents did before *)
Theorem C12_channel : forall w1 w2 v a,
  w_ip2host w1 = w_ip2host w2 -> w_nets w1 = w_nets w2 -> w_services w1 = w_services w2 ->
  w_data w1 = w_data w2 -> w_fw w1 = w_fw w2 -> w_blocks w1 = w_blocks w2 ->
  snd (step w1 v a) = snd (step w2 v a).
Proof. exact step_channel. Qed.

(* ... and another agent's action can change those tables only by a successful exfiltration (data)
   or a successful BlockIP (firewall and visible blocks) *)
Theorem C12_world_changes : forall w v a,
  step w v a = (w, snd (step w v a)) \/
  (exists src tgt d nt, a = AExfil src tgt d /\ exfil_pre w v src tgt d = true /\ w_ip2host w !! tgt = Some nt /\
     fst (step w v a) = set_data w (<[nt := get (w_data w) nt ∪ {[d]}]> (w_data w))) \/
  (exists src tgt b, a = ABlock src tgt b /\ block_pre w v src tgt b = true /\
     fst (step w v a) = {| w_ip2host := w_ip2host w; w_nets := w_nets w; w_services := w_services w; w_data := w_data w;
                           w_fw := fw_remove (fw_remove (w_fw w) tgt b) b tgt;
                           w_blocks := add_to (add_to (w_blocks w) tgt {[b]}) b {[tgt]};
                           w_data0 := w_data0 w; w_fw0 := w_fw0 w |}).
Proof. exact step_cases. Qed.

Example C12_nonvacuous :
  let w := {| w_ip2host := {[1%N := 10%N; 2%N := 20%N]}; w_nets := ∅; w_services := ∅; w_data := ∅;
              w_fw := {[1%N := {[1%N; 2%N]}]}; w_blocks := ∅; w_data0 := ∅; w_fw0 := ∅ |} in
  let va := {| v_ctrl := {[1%N]}; v_hosts := {[1%N]}; v_svcs := ∅; v_data := ∅; v_nets := ∅; v_blocks := ∅ |} in
  let s := (w, {[0 := va; 1 := va]}) : mstate in
  snd (mstep s 1 (ABlock 1 1 2)%N) !! 0 = Some va /\ snd (mstep s 1 (ABlock 1 1 2)%N) !! 1 <> Some va.
Proof.
  split; [reflexivity|]. vm_compute. intros H. discriminate H.
Qed.

(* the coordinator adds no other channel: whatever message the handler of address c0 works on, the record of every other
   agent (view, counters, status, reward, trajectory) is exactly as before (for any world model, hence for the whole game);
   only the reward and reset tasks touch several agents at once, and they do not look at views *)
Theorem C12_coordinator_no_channel : forall (V W G : Type) (wstep : W -> V -> G -> W * V) (winit : W -> role -> W * V)
    (goal : role -> V -> bool) (detect : list G -> G -> bool) (cfg : config) (s : @state V W G) id c0 (m : @msg G) c,
  c <> c0 -> alookup c (agents (@h_start V W G wstep winit goal detect cfg s id c0 m)) = alookup c (agents s).
Proof. exact @h_start_others. Qed.

Print Assumptions C12_own.
Print Assumptions C12_no_gift.
Print Assumptions C12_channel.
Print Assumptions C12_world_changes.
Print Assumptions C12_coordinator_no_channel.
