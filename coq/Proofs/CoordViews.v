(* Lifting world-level invariants to the whole game.  For any relation P between the world and a view that is
   (a) established by the initial view, (b) kept by the acting agent's step, (c) kept for everybody else when the
   world changes under somebody's step or somebody's registration, the coordinator keeps `P (world) (view)` for the
   stored view of every agent in every reachable state - whatever the interleaving of messages, departures, rewards and
   resets.  Proofs/Game.v instantiates it with the world model (C11: views are well formed and anchored in the world). *)
From Coq Require Import ZArith NArith List Bool Arith Lia.
From NSG Require Import Model.Coord Proofs.CoordBase Proofs.CoordInv Proofs.CoordInvConn Proofs.CoordInvDispatch
  Proofs.CoordInvHandler Proofs.CoordDirect Proofs.CoordInv2 Proofs.CoordIsolation.
Import ListNotations.

Section Views.
  Context {V W G : Type}.
  Variable wstep : W -> V -> G -> W * V.
  Variable wreset : W -> W.
  Variable winit : W -> role -> W * V.
  Variable goal : role -> V -> bool.
  Variable detect : list G -> G -> bool.
  Variable cfg : config.

  Notation state := (@state V W G).
  Notation handler := (@handler V G).
  Notation agent := (@agent V G).
  Notation exec := (@exec V W G wstep wreset winit goal detect cfg).
  Notation execs := (@execs V W G wstep wreset winit goal detect cfg).
  Notation h_start := (@h_start V W G wstep winit goal detect cfg).
  Notation h_wake := (@h_wake V W G wstep winit goal detect cfg).

  Variable Q : W -> Prop.          (* what holds of the world throughout *)
  Variable P : W -> V -> Prop.     (* what holds between the world and every stored view *)
  Hypothesis HQ_step : forall w v a, Q w -> Q (fst (wstep w v a)).
  Hypothesis HQ_reset : forall w, Q w -> Q (wreset w).
  Hypothesis HQ_init : forall w r, Q w -> Q (fst (winit w r)).
  Hypothesis HP_step : forall w v a, Q w -> P w v -> P (fst (wstep w v a)) (snd (wstep w v a)).
  Hypothesis HP_step_others : forall w v u a, Q w -> P w u -> P w v -> P (fst (wstep w u a)) v.
  Hypothesis HP_init : forall w r, Q w -> P (fst (winit w r)) (snd (winit w r)).
  Hypothesis HP_init_others : forall w r v, Q w -> P w v -> P (fst (winit w r)) v.

  Definition VI (s : state) : Prop :=
    Q (world s) /\ forall c a, alookup c (agents s) = Some a -> P (world s) (a_view a).

  Lemma VI_init w : Q w -> VI (init_state w).
  Proof. intros Hq. split; [exact Hq|]. intros c a H. discriminate. Qed.

  (* a state with the same world whose agents all come, with their views, from the old agents *)
  Lemma VI_same (s s' : state) :
    VI s -> world s' = world s ->
    (forall c a', alookup c (agents s') = Some a' -> exists c0 a, alookup c0 (agents s) = Some a /\ a_view a' = a_view a) ->
    VI s'.
  Proof.
    intros [Hq Hp] Ew Hag. split; [rewrite Ew; exact Hq|]. intros c a' Ha'. destruct (Hag c a' Ha') as (c0 & a & Ha & Ev).
    rewrite Ew, Ev. eapply Hp; eauto.
  Qed.

  Lemma look_upd_inv (ags : list (addr * agent)) c0 f c a' :
    alookup c (aupdate c0 f ags) = Some a' ->
    (c = c0 /\ exists a, alookup c ags = Some a /\ a' = f a) \/ (c <> c0 /\ alookup c ags = Some a').
  Proof.
    intros H. destruct (N.eq_dec c0 c) as [->|Hne].
    - left. split; [reflexivity|]. rewrite alookup_aupdate_eq in H. destruct (alookup c ags) as [a|]; [|discriminate].
      injection H as <-. eauto.
    - right. rewrite alookup_aupdate_ne in H by exact Hne. split; [congruence | exact H].
  Qed.

  Lemma VI_upd_view (s s' : state) c0 (f : agent -> agent) :
    VI s -> world s' = world s -> agents s' = aupdate c0 f (agents s) ->
    (forall a, alookup c0 (agents s) = Some a -> a_view (f a) = a_view a) -> VI s'.
  Proof.
    intros Hvi Ew Ea Hf. apply (VI_same s s' Hvi Ew). intros c a' Ha'. rewrite Ea in Ha'.
    apply look_upd_inv in Ha' as [[-> (a & Ha & ->)]|[_ Ha]]; [exists c0, a; split; [exact Ha | apply Hf, Ha] | exists c, a'; auto].
  Qed.

  Lemma VI_agents_same (s s' : state) : VI s -> world s' = world s -> agents s' = agents s -> VI s'.
  Proof.
    intros Hvi Ew Ea. apply (VI_same s s' Hvi Ew). intros c a' Ha'. rewrite Ea in Ha'. eauto.
  Qed.

  Lemma VI_game_finish (s : state) id c0 act v' : VI s -> VI (@game_finish V W G s id c0 act v').
  Proof.
    intros Hvi. unfold game_finish. destruct (alookup c0 (agents s)) as [a|] eqn:H0.
    - eapply (VI_upd_view s _ c0); [exact Hvi | reflexivity | reflexivity|].
      intros a0 Ha0. rewrite H0 in Ha0. injection Ha0 as <-. reflexivity.
    - apply (VI_agents_same s); [exact Hvi | reflexivity | reflexivity].
  Qed.

  Lemma VI_reset_finish (s : state) id c0 want : VI s -> VI (@reset_finish V W G s id c0 want).
  Proof.
    intros Hvi. unfold reset_finish. destruct (alookup c0 (agents s)) as [a|] eqn:H0.
    - eapply (VI_upd_view s _ c0); [exact Hvi | reflexivity | reflexivity|].
      intros a0 Ha0. rewrite H0 in Ha0. injection Ha0 as <-. reflexivity.
    - apply (VI_agents_same s); [exact Hvi | reflexivity | reflexivity].
  Qed.

  Lemma look_app_inv (ags : list (addr * agent)) c0 x c a' :
    alookup c (ags ++ [(c0, x)]) = Some a' -> alookup c ags = Some a' \/ (c = c0 /\ a' = x).
  Proof.
    rewrite alookup_app. destruct (alookup c ags); [auto|]. simpl. destruct (N.eqb c c0) eqn:E; [|discriminate].
    apply N.eqb_eq in E. intros [= <-]. auto.
  Qed.

  Lemma look_remove_inv (ags : list (addr * agent)) c0 c a' :
    NoDup (map fst ags) -> alookup c (aremove c0 ags) = Some a' -> alookup c ags = Some a'.
  Proof.
    intros Hnd H. destruct (N.eq_dec c0 c) as [->|Hne]; [rewrite alookup_aremove_eq in H by exact Hnd; discriminate|].
    rewrite alookup_aremove_ne in H by exact Hne. exact H.
  Qed.

  Theorem VI_h_start (s : state) id c0 m : NoDup (map fst (agents s)) -> VI s -> VI (h_start s id c0 m).
  Proof.
    intros Hnd Hvi. assert (Hsame : forall s' : state, world s' = world s -> agents s' = agents s -> VI s') by (intros; eapply VI_agents_same; eauto).
    destruct m as [|info| |want|act valid]; unfold Coord.h_start.
    - apply Hsame; reflexivity.
    - destruct (alookup c0 (agents s)) as [a0|] eqn:H0; [apply Hsame; reflexivity|].
      destruct info as [[name [r|]]|]; try (apply Hsame; reflexivity).
      destruct (negb (allowed cfg r)); [apply Hsame; reflexivity|].
      destruct Hvi as [Hq Hp].
      pose proof (HQ_init (world s) r Hq) as Hq'. pose proof (HP_init (world s) r Hq) as Hp'.
      destruct (winit (world s) r) as [w' v] eqn:Ew. cbn [fst snd] in Hq', Hp'. cbv zeta.
      assert (Hnew : forall s' : state, world s' = w' -> agents s' = agents s ++ [(c0, new_agent name r v)] -> VI s').
      { intros s' E1 E2. split; [rewrite E1; exact Hq'|]. intros c a' Ha'. rewrite E1, E2 in *.
        apply look_app_inv in Ha' as [Ha|[_ ->]]; [|exact Hp'].
        pose proof (HP_init_others (world s) r (a_view a') Hq (Hp c a' Ha)) as H. rewrite Ew in H. exact H. }
      destruct (Nat.eqb _ _); [apply Hnew; reflexivity|]. destruct (ev_start _); apply Hnew; reflexivity.
    - simpl. unfold remove_agent. destruct (alookup c0 (agents s)) as [a0|] eqn:H0; [|apply Hsame; reflexivity].
      assert (Hrm : forall s' : state, world s' = world s -> agents s' = aremove c0 (agents s) -> VI s').
      { intros s' E1 E2. apply (VI_same s s' Hvi E1). intros c a' Ha'. rewrite E2 in Ha'. apply look_remove_inv in Ha'; eauto. }
      destruct (_ && _); destruct (all_ended _); apply Hrm; reflexivity.
    - destruct (alookup c0 (agents s)) as [a0|] eqn:H0; [|apply Hsame; reflexivity]. cbv zeta.
      assert (Hup : forall s' : state, world s' = world s -> agents s' = aupdate c0 (fun a => a_set_req a true) (agents s) -> VI s').
      { intros s' E1 E2. eapply (VI_upd_view s s' c0); eauto. }
      destruct (all_req _); apply Hup; reflexivity.
    - destruct (alookup c0 (agents s)) as [a|] eqn:H0; [|apply Hsame; reflexivity].
      destruct (negb valid); [apply Hsame; reflexivity|]. destruct (a_ended a); [apply Hsame; reflexivity|].
      destruct Hvi as [Hq Hp].
      pose proof (HQ_step (world s) (a_view a) act Hq) as Hq'.
      pose proof (HP_step (world s) (a_view a) act Hq (Hp c0 a H0)) as Hp'.
      pose proof (fun v Hv => HP_step_others (world s) v (a_view a) act Hq (Hp c0 a H0) Hv) as Hpo.
      destruct (wstep (world s) (a_view a) act) as [w' v'] eqn:Ew. cbn [fst snd] in Hq', Hp', Hpo. cbv zeta.
      match goal with |- context [aupdate c0 (fun _ => ?A2) (agents s)] => set (a2 := A2) end.
      assert (Ev2 : a_view a2 = v') by reflexivity. clearbody a2.
      set (ags := aupdate c0 (fun _ => a2) (agents s)).
      assert (Hs2 : forall s2 : state, world s2 = w' -> agents s2 = ags -> VI s2).
      { intros s2 E1 E2. split; [rewrite E1; exact Hq'|]. intros c a' Ha'. rewrite E1, E2 in *. unfold ags in Ha'.
        apply look_upd_inv in Ha' as [[-> (a0 & Ha0 & ->)]|[_ Ha]]; [rewrite Ev2; exact Hp' | apply Hpo; eapply Hp; eauto]. }
      assert (Hgoal : forall s2 : state, world s2 = w' -> agents s2 = ags -> forall b : bool,
                VI (if b then park s2 id (PRewards false act v') else @game_finish V W G s2 id c0 act v')).
      { intros s2 E1 E2 b. destruct b; [apply Hs2; [exact E1 | exact E2] | apply VI_game_finish, Hs2; assumption]. }
      destruct (all_ended ags); apply Hgoal; reflexivity.
  Qed.

  Theorem VI_h_wake (s s' : state) (h : handler) : NoDup (map fst (agents s)) -> VI s -> h_wake s h = Some s' -> VI s'.
  Proof.
    intros Hnd Hvi. unfold Coord.h_wake. destruct (h_pc h) as [m|rel v|rel act v'|rel want|rel want].
    - intros [= <-]. apply VI_h_start; assumption.
    - destruct rel; [|discriminate]. intros [= <-]. eapply VI_agents_same; eauto.
    - destruct rel; [|discriminate]. intros [= <-]. apply VI_game_finish, Hvi.
    - destruct rel; [|discriminate]. destruct (ev_start s); intros [= <-]; [apply VI_reset_finish, Hvi | eapply VI_agents_same; eauto].
    - destruct rel; [|discriminate]. intros [= <-]. apply VI_reset_finish, Hvi.
  Qed.

  (* the reset task re-initialises every agent, one after the other, on the reset world *)
  Lemma VI_reset_fold (l : list (addr * agent)) w done fl :
    Q w -> (forall c a, In (c, a) done -> P w (a_view a)) ->
    let r := fold_left (@reset_one V W G winit cfg) l (w, done, fl) in
    Q (fst (fst r)) /\ forall c a, In (c, a) (snd (fst r)) -> P (fst (fst r)) (a_view a).
  Proof.
    revert w done fl. induction l as [|x tl IH]; intros w done fl Hq Hd; cbn [fold_left]; [split; assumption|].
    pose proof (HQ_init w (a_role (snd x)) Hq) as Hq'. pose proof (HP_init w (a_role (snd x)) Hq) as Hp'.
    pose proof (fun v Hv => HP_init_others w (a_role (snd x)) v Hq Hv) as Hpo.
    destruct (reset_one_effect winit cfg w done fl x) as (w1 & v & Ew & ->). rewrite Ew in Hq', Hp', Hpo. cbn [fst snd] in *.
    apply IH; [exact Hq'|]. intros c a Hin. apply in_app_or in Hin as [Hin|[E|[]]].
    - apply Hpo. eapply Hd; eauto.
    - injection E as _ <-. exact Hp'.
  Qed.

  Theorem VI_exec (s s' : state) l : NoDup (map fst (agents s)) -> VI s -> exec s l = Some s' -> VI s'.
  Proof.
    intros Hnd Hvi He.
    assert (Hsame : forall s1 : state, world s1 = world s -> agents s1 = agents s -> VI s1) by (intros; eapply VI_agents_same; eauto).
    destruct l as [k|k ch|k|k|k|t]; cbn [Coord.exec] in He.
    - destruct (alookup k (conns s)); [discriminate|]. injection He as <-. apply Hsame; reflexivity.
    - destruct (alookup k (conns s)) as [cn|]; [|discriminate]. destruct (c_inbox cn); [discriminate|].
      destruct (c_state cn); try discriminate; (destruct (c_eof cn); [discriminate|]; injection He as <-; apply Hsame; reflexivity).
    - destruct (alookup k (conns s)); [|discriminate]. injection He as <-. apply Hsame; reflexivity.
    - destruct (alookup k (conns s)); [|discriminate]. injection He as <-. apply Hsame; reflexivity.
    - destruct (alookup k (conns s)); [|discriminate]. injection He as <-. apply Hsame; reflexivity.
    - destruct t as [k| |id| |].
      + assert (Hcr : forall (t : state) cn, agents (conn_read t k cn) = agents t /\ world (conn_read t k cn) = world t).
        { intros t cn. unfold conn_read, leave, cleanup. destruct (c_rerr cn); [split; reflexivity|].
          destruct (c_inbox cn) as [[m|]|]; try (split; reflexivity). destruct (c_eof cn); split; reflexivity. }
        unfold conn_run in He. destruct (alookup k (conns s)) as [cn|]; [|discriminate].
        destruct (negb (conn_runnable cn)); [discriminate|].
        destruct (c_state cn).
        * destruct (Nat.leb (required cfg) (served s)); injection He as <-; [apply Hsame; reflexivity|].
          match goal with |- VI (conn_read ?T k ?C) => destruct (Hcr T C) as [E1 E2]; apply Hsame; [rewrite E2 | rewrite E1]; reflexivity end.
        * injection He as <-. destruct (Hcr s cn) as [E1 E2]. apply Hsame; assumption.
        * destruct (c_queue cn) as [|[r|] q']; [discriminate| |].
          -- destruct (c_wfail cn); injection He as <-; [apply Hsame; reflexivity|].
             match goal with |- VI (conn_read ?T k ?C) => destruct (Hcr T C) as [E1 E2]; apply Hsame; [rewrite E2 | rewrite E1]; reflexivity end.
          -- injection He as <-. apply Hsame; reflexivity.
        * discriminate.
      + unfold dispatch_run in He. destruct (aq s) as [|x q]; [discriminate|]. injection He as <-.
        assert (Hd : forall q (t : state), agents (fold_left dispatch1 q t) = agents t /\ world (fold_left dispatch1 q t) = world t).
        { induction q0 as [|[k m] tl IH]; intros t; [split; reflexivity|]. cbn [fold_left]. destruct (IH (dispatch1 t (k, m))) as [-> ->].
          destruct m; split; reflexivity. }
        change (VI (fold_left dispatch1 (x :: q) (set_aq s []))). destruct (Hd (x :: q) (set_aq s [])) as [E1 E2]. apply Hsame; assumption.
      + unfold handler_run in He. destruct (find (fun h => Nat.eqb (h_id h) id) (handlers s)) as [h|]; [|discriminate].
        eapply VI_h_wake; eauto.
      + unfold rewards_run in He. destruct (negb (ev_end s)); [discriminate|].
        destruct (negb (all_ended (agents s))); injection He as <-; [apply Hsame; reflexivity|].
        apply (VI_same s _ Hvi); [reflexivity|]. intros c a' Ha'. simpl in Ha'. rewrite alookup_map_snd in Ha'.
        destruct (alookup c (agents s)) as [a|] eqn:Ea; [|discriminate]. injection Ha' as <-. exists c, a. split; [exact Ea|].
        unfold reward_agent. destruct (_ || _); [reflexivity|]. destruct (a_role a); reflexivity.
      + unfold reset_run in He. destruct (negb (ev_reset s)); [discriminate|].
        destruct (negb _); [injection He as <-; apply Hsame; reflexivity|].
        destruct Hvi as [Hq Hp].
        pose proof (VI_reset_fold (agents s) (wreset (world s)) [] (files s) (HQ_reset _ Hq) (fun c a (H : In (c, a) []) => match H with end)) as Hf.
        cbv zeta in Hf.
        destruct (fold_left _ (agents s) (wreset (world s), [], files s)) as [[w' ags] fl]. cbn [fst snd] in Hf. destruct Hf as [Hq' Hp'].
        injection He as <-. split; [exact Hq'|]. intros c a Ha. simpl in Ha. simpl. apply (Hp' c a). apply alookup_in, Ha.
  Qed.

  Theorem VI_reachable w ls s : Q w -> execs (init_state w) ls = Some s -> VI s.
  Proof.
    intros Hq.
    assert (H0 : Inv (@init_state V W G w) /\ VI (init_state w)) by (split; [apply inv_init | apply VI_init, Hq]).
    revert H0. generalize (@init_state V W G w). induction ls as [|l tl IH]; intros s0 [Hi Hv]; simpl; [intros [= <-]; exact Hv|].
    destruct (exec s0 l) as [s1|] eqn:E; [|discriminate]. apply IH. split; [eapply inv_exec; eauto|].
    eapply VI_exec; eauto. apply (I_agents s0 Hi).
  Qed.
End Views.
