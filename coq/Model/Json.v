(* JSON values as produced by Python's json module for the messages NetSecGame exchanges.
   Objects are association lists in document order (json.loads keeps one binding per key). *)
From Coq Require Import String ZArith List.
Import ListNotations.
Open Scope string_scope.

Inductive json :=
| JNull
| JBool (b : bool)
| JNum (z : Z)
| JStr (s : string)
| JArr (l : list json)
| JObj (l : list (string * json)).

Fixpoint jget (k : string) (o : list (string * json)) : option json :=
  match o with
  | [] => None
  | (k', v) :: tl => if String.eqb k k' then Some v else jget k tl
  end.

Definition jkeys (o : list (string * json)) : list string := map fst o.

Fixpoint mapM {A B} (f : A -> option B) (l : list A) : option (list B) :=
  match l with
  | [] => Some []
  | x :: tl => match f x with
               | None => None
               | Some y => match mapM f tl with None => None | Some ys => Some (y :: ys) end
               end
  end.

Definition str_in (s : string) (l : list string) : bool := existsb (String.eqb s) l.
(* every key of the object is one of the allowed names (a dataclass constructor called with keyword arguments rejects others) *)
Definition keys_within (o : list (string * json)) (allowed : list string) : bool :=
  forallb (fun k => str_in k allowed) (jkeys o).
