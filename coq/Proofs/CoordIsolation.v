(* Isolation at the coordinator: a handler step works for one address; the record of every OTHER agent
   (view, counters, status, reward, flags, trajectory) is exactly as before, whatever the message was.  Only the
   two background tasks (rewards, reset) touch several agents at once. *)
From Coq Require Import ZArith NArith List Bool Arith Lia.
From NSG Require Import Model.Coord Proofs.CoordBase Proofs.CoordInv Proofs.CoordInvConn Proofs.CoordInvDispatch
  Proofs.CoordInvHandler Proofs.CoordDirect Proofs.CoordInv2.
Import ListNotations.

Section Isolation.
  Context {V W G : Type}.
  Variable wstep : W -> V -> G -> W * V.
  Variable wreset : W -> W.
  Variable winit : W -> role -> W * V.
  Variable goal : role -> V -> bool.
  Variable detect : list G -> G -> bool.
  Variable cfg : config.

  Notation state := (@state V W G).
  Notation handler := (@handler V G).
  Notation agent := (@agent V G).
  Notation exec := (@exec V W G wstep wreset winit goal detect cfg).
  Notation execs := (@execs V W G wstep wreset winit goal detect cfg).
  Notation h_start := (@h_start V W G wstep winit goal detect cfg).
  Notation h_wake := (@h_wake V W G wstep winit goal detect cfg).

  Lemma look_upd (ags : list (addr * agent)) c0 c f : c <> c0 -> alookup c (aupdate c0 f ags) = alookup c ags.
  Proof. intros Hne. apply alookup_aupdate_ne. congruence. Qed.

  Lemma game_finish_others (s : state) id c0 act v' c : c <> c0 ->
    alookup c (agents (@game_finish V W G s id c0 act v')) = alookup c (agents s).
  Proof. intros Hne. unfold game_finish. destruct (alookup c0 (agents s)); [|reflexivity]. simpl. apply look_upd, Hne. Qed.
  Lemma reset_finish_others (s : state) id c0 want c : c <> c0 ->
    alookup c (agents (@reset_finish V W G s id c0 want)) = alookup c (agents s).
  Proof. intros Hne. unfold reset_finish. destruct (alookup c0 (agents s)); [|reflexivity]. simpl. apply look_upd, Hne. Qed.

  Theorem h_start_others (s : state) id c0 m c : c <> c0 ->
    alookup c (agents (h_start s id c0 m)) = alookup c (agents s).
  Proof.
    intros Hne. destruct m as [|info| |want|act valid]; unfold Coord.h_start.
    - reflexivity.
    - destruct (alookup c0 (agents s)); [reflexivity|].
      destruct info as [[name [r|]]|]; try reflexivity.
      destruct (negb (allowed cfg r)); [reflexivity|].
      destruct (winit (world s) r) as [w' v]. cbv zeta.
      assert (Hl : alookup c (agents s ++ [(c0, new_agent name r v)]) = alookup c (agents s)).
      { rewrite alookup_app. destruct (alookup c (agents s)); [reflexivity|]. simpl.
        destruct (N.eqb c c0) eqn:E; [apply N.eqb_eq in E; congruence | reflexivity]. }
      destruct (Nat.eqb _ _); [simpl; exact Hl|]. destruct (ev_start _); simpl; exact Hl.
    - simpl. unfold remove_agent. destruct (alookup c0 (agents s)); [|reflexivity].
      assert (Hl : alookup c (aremove c0 (agents s)) = alookup c (agents s)) by (apply alookup_aremove_ne; congruence).
      destruct (_ && _); destruct (all_ended _); exact Hl.
    - destruct (alookup c0 (agents s)); [|reflexivity]. cbv zeta. destruct (all_req _); simpl; apply look_upd, Hne.
    - destruct (alookup c0 (agents s)) as [a|]; [|reflexivity].
      destruct (negb valid); [reflexivity|]. destruct (a_ended a); [reflexivity|].
      destruct (wstep (world s) (a_view a) act) as [w' v']. cbv zeta.
      match goal with |- context [all_ended ?AGS] => set (ags := AGS) end.
      assert (Hl : alookup c ags = alookup c (agents s)) by (apply look_upd, Hne).
      assert (Hgoal : forall s2 : state, agents s2 = ags -> forall b : bool,
                alookup c (agents (if b then park s2 id (PRewards false act v') else @game_finish V W G s2 id c0 act v')) = alookup c (agents s)).
      { intros s2 E2 b. destruct b; [simpl; rewrite E2; exact Hl|]. rewrite game_finish_others by exact Hne. rewrite E2. exact Hl. }
      destruct (all_ended ags); apply Hgoal; reflexivity.
  Qed.

  Theorem h_wake_others (s s' : state) (h : handler) c : c <> h_addr h -> h_wake s h = Some s' ->
    alookup c (agents s') = alookup c (agents s).
  Proof.
    intros Hne. unfold Coord.h_wake. destruct (h_pc h) as [m|rel v|rel act v'|rel want|rel want].
    - intros [= <-]. apply h_start_others, Hne.
    - destruct rel; [|discriminate]. intros [= <-]. reflexivity.
    - destruct rel; [|discriminate]. intros [= <-]. apply game_finish_others, Hne.
    - destruct rel; [|discriminate]. destruct (ev_start s); intros [= <-]; [apply reset_finish_others, Hne | reflexivity].
    - destruct rel; [|discriminate]. intros [= <-]. apply reset_finish_others, Hne.
  Qed.

  (* a handler step also leaves the world alone unless it is the game action or the join of its own agent;
     stated for the messages that must not touch it *)
  Theorem h_start_world_frame (s : state) id c0 m :
    (forall act valid, m <> MGame act valid) -> (forall info, m <> MJoin info) ->
    world (h_start s id c0 m) = world s /\ files (h_start s id c0 m) = files s.
  Proof.
    intros Hg Hj. destruct m as [|info| |want|act valid]; unfold Coord.h_start.
    - split; reflexivity.
    - exfalso. eapply Hj. reflexivity.
    - simpl. unfold remove_agent. destruct (alookup c0 (agents s)); [|split; reflexivity].
      destruct (_ && _); destruct (all_ended _); split; reflexivity.
    - destruct (alookup c0 (agents s)); [|split; reflexivity]. cbv zeta. destruct (all_req _); split; reflexivity.
    - exfalso. eapply Hg. reflexivity.
  Qed.

  (* every label that is not one of the two background tasks leaves all agents but (at most) one alone *)
  Theorem label_touches_one (s s' : state) l :
    exec s l = Some s' -> l <> LRun TRewards -> l <> LRun TReset ->
    exists c0, forall c, c <> c0 -> alookup c (agents s') = alookup c (agents s).
  Proof.
    intros He H1 H2. destruct l as [k|k ch|k|k|k|t]; cbn [Coord.exec] in He.
    - exists k. intros c _. destruct (alookup k (conns s)); [discriminate|]. injection He as <-. reflexivity.
    - exists k. intros c _. destruct (alookup k (conns s)) as [cn|]; [|discriminate]. destruct (c_inbox cn); [discriminate|].
      destruct (c_state cn); try discriminate; (destruct (c_eof cn); [discriminate|]; injection He as <-; reflexivity).
    - exists k. intros c _. destruct (alookup k (conns s)); [|discriminate]. injection He as <-. reflexivity.
    - exists k. intros c _. destruct (alookup k (conns s)); [|discriminate]. injection He as <-. reflexivity.
    - exists k. intros c _. destruct (alookup k (conns s)); [|discriminate]. injection He as <-. reflexivity.
    - destruct t as [k| |id| |]; try congruence.
      + exists k. intros c _.
        assert (Hcr : forall (t : state) cn, agents (conn_read t k cn) = agents t).
        { intros t cn. unfold conn_read, leave, cleanup. destruct (c_rerr cn); [reflexivity|].
          destruct (c_inbox cn) as [[m|]|]; try reflexivity. destruct (c_eof cn); reflexivity. }
        unfold conn_run in He. destruct (alookup k (conns s)) as [cn|]; [|discriminate].
        destruct (negb (conn_runnable cn)); [discriminate|].
        destruct (c_state cn).
        * destruct (Nat.leb (required cfg) (served s)); injection He as <-; [reflexivity | rewrite Hcr; reflexivity].
        * injection He as <-. rewrite Hcr. reflexivity.
        * destruct (c_queue cn) as [|[r|] q']; [discriminate| |].
          -- destruct (c_wfail cn); injection He as <-; [reflexivity | rewrite Hcr; reflexivity].
          -- injection He as <-. reflexivity.
        * discriminate.
      + exists 0%N. intros c _. unfold dispatch_run in He. destruct (aq s) as [|x q]; [discriminate|]. injection He as <-.
        assert (Hd : forall q (t : state), agents (fold_left dispatch1 q t) = agents t).
        { induction q0 as [|[k m] tl IH]; intros t; [reflexivity|]. cbn [fold_left]. rewrite IH. destruct m; reflexivity. }
        change (alookup c (agents (fold_left dispatch1 (x :: q) (set_aq s []))) = alookup c (agents s)). rewrite Hd. reflexivity.
      + unfold handler_run in He. destruct (find (fun h => Nat.eqb (h_id h) id) (handlers s)) as [h|]; [|discriminate].
        exists (h_addr h). intros c Hne. eapply h_wake_others; eauto.
  Qed.
End Isolation.
