(* Basic lemmas for the coordinator model: association lists, token counts and the effect of the
   primitive state updates on them. *)
From Coq Require Import ZArith NArith List Bool Arith Lia.
From NSG Require Import Model.Coord.
Import ListNotations.

Section AList.
  Context {A : Type}.
  Implicit Types (l : list (addr * A)) (c k : addr).

  Lemma alookup_aupdate_eq c f l : alookup c (aupdate c f l) = option_map f (alookup c l).
  Proof.
    induction l as [|[k v] tl IH]; simpl; [reflexivity|].
    destruct (N.eqb c k) eqn:E; simpl; rewrite E; [reflexivity | exact IH].
  Qed.

  Lemma alookup_aupdate_ne c k f l : c <> k -> alookup k (aupdate c f l) = alookup k l.
  Proof.
    intros Hne. induction l as [|[k' v] tl IH]; simpl; [reflexivity|].
    destruct (N.eqb c k') eqn:E; simpl.
    - apply N.eqb_eq in E. subst. destruct (N.eqb k k') eqn:E2; [apply N.eqb_eq in E2; congruence | reflexivity].
    - destruct (N.eqb k k'); [reflexivity | exact IH].
  Qed.

  Lemma map_fst_aupdate c f l : map fst (aupdate c f l) = map fst l.
  Proof.
    induction l as [|[k v] tl IH]; simpl; [reflexivity|].
    destruct (N.eqb c k); simpl; congruence.
  Qed.

  Lemma aupdate_at c f l x : alookup c l = Some x -> aupdate c f l = aupdate c (fun _ => f x) l.
  Proof.
    induction l as [|[k v] tl IH]; simpl; [discriminate|].
    destruct (N.eqb c k); [intros [= ->]; reflexivity | intros H; rewrite IH by exact H; reflexivity].
  Qed.

  Lemma aupdate_aupdate c f g l : aupdate c f (aupdate c g l) = aupdate c (fun x => f (g x)) l.
  Proof.
    induction l as [|[k v] tl IH]; simpl; [reflexivity|].
    destruct (N.eqb c k) eqn:E; simpl; rewrite E; [reflexivity | rewrite IH; reflexivity].
  Qed.

  Lemma aupdate_none c f l : alookup c l = None -> aupdate c f l = l.
  Proof.
    induction l as [|[k v] tl IH]; simpl; [reflexivity|].
    destruct (N.eqb c k); [discriminate|]. intros H. rewrite IH by exact H. reflexivity.
  Qed.

  Lemma alookup_app c l l' :
    alookup c (l ++ l') = match alookup c l with Some x => Some x | None => alookup c l' end.
  Proof.
    induction l as [|[k v] tl IH]; simpl; [reflexivity|].
    destruct (N.eqb c k); [reflexivity | exact IH].
  Qed.

  Lemma alookup_in c l x : alookup c l = Some x -> In (c, x) l.
  Proof.
    induction l as [|[k v] tl IH]; simpl; [discriminate|].
    destruct (N.eqb c k) eqn:E; [apply N.eqb_eq in E; intros [= <-]; subst; left; reflexivity | intros H; right; apply IH, H].
  Qed.

  Lemma alookup_none_notin c l : alookup c l = None -> ~ In c (map fst l).
  Proof.
    induction l as [|[k v] tl IH]; simpl; [tauto|].
    destruct (N.eqb c k) eqn:E; [discriminate|]. apply N.eqb_neq in E. intros H [Hk|Hin]; [congruence | exact (IH H Hin)].
  Qed.

  Lemma in_alookup c x l : NoDup (map fst l) -> In (c, x) l -> alookup c l = Some x.
  Proof.
    induction l as [|[k v] tl IH]; simpl; [tauto|].
    intros Hnd [Heq|Hin].
    - injection Heq as -> ->. rewrite N.eqb_refl. reflexivity.
    - inversion Hnd as [|? ? Hnotin Hnd']; subst.
      destruct (N.eqb c k) eqn:E.
      + apply N.eqb_eq in E. subst. exfalso. apply Hnotin. apply (in_map fst) in Hin. exact Hin.
      + apply IH; assumption.
  Qed.

  Lemma alookup_aremove_eq c l : NoDup (map fst l) -> alookup c (aremove c l) = None.
  Proof.
    induction l as [|[k v] tl IH]; simpl; [reflexivity|].
    intros Hnd. inversion Hnd as [|? ? Hnotin Hnd']; subst.
    destruct (N.eqb c k) eqn:E.
    - apply N.eqb_eq in E. subst.
      destruct (alookup k tl) eqn:El; [|reflexivity].
      exfalso. apply Hnotin. apply alookup_in in El. apply (in_map fst) in El. exact El.
    - simpl. rewrite E. apply IH, Hnd'.
  Qed.

  Lemma alookup_aremove_ne c k l : c <> k -> alookup k (aremove c l) = alookup k l.
  Proof.
    intros Hne. induction l as [|[k' v] tl IH]; simpl; [reflexivity|].
    destruct (N.eqb c k') eqn:E.
    - apply N.eqb_eq in E. subst. destruct (N.eqb k k') eqn:E2; [apply N.eqb_eq in E2; congruence | reflexivity].
    - simpl. destruct (N.eqb k k'); [reflexivity | exact IH].
  Qed.

  Lemma map_fst_aremove_incl c l : incl (map fst (aremove c l)) (map fst l).
  Proof.
    induction l as [|[k v] tl IH]; simpl; [apply incl_refl|].
    destruct (N.eqb c k); simpl.
    - apply incl_tl, incl_refl.
    - intros x [Hx|Hx]; [left; exact Hx | right; apply IH, Hx].
  Qed.

  Lemma NoDup_aremove c l : NoDup (map fst l) -> NoDup (map fst (aremove c l)).
  Proof.
    induction l as [|[k v] tl IH]; simpl; [auto|].
    intros Hnd. inversion Hnd as [|? ? Hnotin Hnd']; subst.
    destruct (N.eqb c k); [exact Hnd'|]. simpl. constructor; [|apply IH, Hnd'].
    intros Hin. apply Hnotin. apply (map_fst_aremove_incl c tl), Hin.
  Qed.

  Lemma length_aremove c l x : alookup c l = Some x -> length (aremove c l) = length l - 1.
  Proof.
    revert x. induction l as [|[k v] tl IH]; simpl; [discriminate|]. intros x.
    destruct (N.eqb c k); [intros _; lia|]. intros H. simpl. rewrite (IH x H).
    apply alookup_in in H. destruct tl; [inversion H | simpl; lia].
  Qed.
End AList.

Lemma NoDup_app_one {A} (l : list A) x : NoDup l -> ~ In x l -> NoDup (l ++ [x]).
Proof.
  induction l as [|y tl IH]; simpl; intros Hnd Hn; [constructor; [tauto | constructor]|].
  inversion Hnd as [|? ? Hy Hnd']; subst. constructor.
  - intros Hin. apply in_app_or in Hin as [Hin|[<-|[]]]; [contradiction | apply Hn; left; reflexivity].
  - apply IH; [exact Hnd' | intros H; apply Hn; right; exact H].
Qed.

Section Counts.
  Context {V G : Type}.
  Notation msg := (@msg G).
  Notation handler := (@handler V G).
  Notation conn := (@conn V G).

  Definition naq (c : addr) (q : list (addr * msg)) : nat := length (filter (fun x => N.eqb (fst x) c) q).
  Definition nh (c : addr) (hs : list handler) : nat := length (filter (fun h => N.eqb (h_addr h) c) hs).
  Definition nq (c : addr) (cs : list (addr * conn)) : nat :=
    match alookup c cs with Some cn => length (c_queue cn) | None => 0 end.

  Lemma naq_app c q q' : naq c (q ++ q') = naq c q + naq c q'.
  Proof. unfold naq. rewrite filter_app, app_length. reflexivity. Qed.
  Lemma nh_app c h h' : nh c (h ++ h') = nh c h + nh c h'.
  Proof. unfold nh. rewrite filter_app, app_length. reflexivity. Qed.
  Lemma naq_one c k m : naq c [(k, m)] = if N.eqb k c then 1 else 0.
  Proof. unfold naq. simpl. destruct (N.eqb k c); reflexivity. Qed.
  Lemma nh_one c (h : handler) : nh c [h] = if N.eqb (h_addr h) c then 1 else 0.
  Proof. unfold nh. simpl. destruct (N.eqb (h_addr h) c); reflexivity. Qed.

  Lemma naq_all_same c (extra : list (addr * msg)) : (forall x, In x extra -> fst x = c) -> naq c extra = length extra.
  Proof.
    unfold naq. induction extra as [|[k m] tl IH]; intros H; cbn [filter length fst]; [reflexivity|].
    pose proof (H (k, m) (or_introl eq_refl)) as Hk. cbn [fst] in Hk. subst k. rewrite N.eqb_refl. cbn [length].
    rewrite IH; [reflexivity|]. intros y Hy. apply H. right. exact Hy.
  Qed.
  Lemma naq_all_other c c' (extra : list (addr * msg)) : (forall x, In x extra -> fst x = c) -> c' <> c -> naq c' extra = 0.
  Proof.
    unfold naq. induction extra as [|[k m] tl IH]; intros H Hne; cbn [filter length fst]; [reflexivity|].
    pose proof (H (k, m) (or_introl eq_refl)) as Hk. cbn [fst] in Hk. subst k.
    destruct (N.eqb c c') eqn:E; [apply N.eqb_eq in E; congruence|].
    apply IH; [|exact Hne]. intros y Hy. apply H. right. exact Hy.
  Qed.

  Lemma naq0_notin c (q : list (addr * msg)) m : naq c q = 0 -> ~ In (c, m) q.
  Proof.
    unfold naq. intros H Hin.
    assert (Hf : In (c, m) (filter (fun x => N.eqb (fst x) c) q)) by (apply filter_In; split; [exact Hin | apply N.eqb_refl]).
    destruct (filter (fun x => N.eqb (fst x) c) q); [inversion Hf | discriminate].
  Qed.
  Lemma nh0_notin c (hs : list handler) h : nh c hs = 0 -> In h hs -> h_addr h <> c.
  Proof.
    unfold nh. intros H Hin Ha.
    assert (Hf : In h (filter (fun x => N.eqb (h_addr x) c) hs)) by (apply filter_In; split; [exact Hin | apply N.eqb_eq, Ha]).
    destruct (filter (fun x => N.eqb (h_addr x) c) hs); [inversion Hf | discriminate].
  Qed.
  Lemma naq_pos c (q : list (addr * msg)) m : In (c, m) q -> 1 <= naq c q.
  Proof. intros H. destruct (naq c q) eqn:E; [exfalso; eapply naq0_notin; eauto | lia]. Qed.
  Lemma nh_pos c (hs : list handler) h : In h hs -> h_addr h = c -> 1 <= nh c hs.
  Proof. intros H Ha. destruct (nh c hs) eqn:E; [exfalso; eapply nh0_notin; eauto | lia]. Qed.

  Lemma nh_map_same c (f : handler -> handler) hs : (forall h, h_addr (f h) = h_addr h) -> nh c (map f hs) = nh c hs.
  Proof.
    intros Hf. unfold nh. induction hs as [|h tl IH]; simpl; [reflexivity|].
    rewrite Hf. destruct (N.eqb (h_addr h) c); simpl; rewrite IH; reflexivity.
  Qed.

  (* removing the handler with a given (unique) id *)
  Lemma filter_id_notin id (tl : list handler) :
    ~ In id (map h_id tl) -> filter (fun x => negb (Nat.eqb (h_id x) id)) tl = tl.
  Proof.
    induction tl as [|y tl IH]; simpl; [reflexivity|]. intros Hn.
    destruct (Nat.eqb (h_id y) id) eqn:E.
    - apply Nat.eqb_eq in E. exfalso. apply Hn. left. exact E.
    - simpl. rewrite IH; [reflexivity|]. intros H. apply Hn. right. exact H.
  Qed.

  Lemma nh_remove c hs h :
    NoDup (map h_id hs) -> In h hs ->
    nh c hs = nh c (filter (fun x => negb (Nat.eqb (h_id x) (h_id h))) hs) + (if N.eqb (h_addr h) c then 1 else 0).
  Proof.
    intros Hnd Hin. unfold nh. induction hs as [|x tl IH]; simpl; [inversion Hin|].
    inversion Hnd as [|? ? Hnotin Hnd']; subst.
    destruct Hin as [->|Hin].
    - rewrite Nat.eqb_refl. simpl. rewrite (filter_id_notin (h_id h) tl Hnotin).
      destruct (N.eqb (h_addr h) c); simpl; lia.
    - destruct (Nat.eqb (h_id x) (h_id h)) eqn:E.
      + apply Nat.eqb_eq in E. exfalso. apply Hnotin. rewrite E. apply in_map, Hin.
      + simpl. specialize (IH Hnd' Hin).
        destruct (N.eqb (h_addr x) c); simpl; rewrite IH; lia.
  Qed.

  Lemma handler_unique (hs : list handler) x y : NoDup (map h_id hs) -> In x hs -> In y hs -> h_id x = h_id y -> x = y.
  Proof.
    induction hs as [|z tl IH]; [intros _ []|].
    intros Hnd Hx Hy Hid. inversion Hnd as [|? ? Hn Hnd']; subst.
    destruct Hx as [->|Hx], Hy as [->|Hy]; try reflexivity.
    - exfalso. apply Hn. rewrite Hid. apply in_map, Hy.
    - exfalso. apply Hn. rewrite <- Hid. apply in_map, Hx.
    - apply IH; assumption.
  Qed.

  Lemma in_remove_handler id (hs : list handler) h :
    In h (filter (fun x => negb (Nat.eqb (h_id x) id)) hs) <-> In h hs /\ h_id h <> id.
  Proof. rewrite filter_In, negb_true_iff, Nat.eqb_neq. tauto. Qed.
End Counts.
