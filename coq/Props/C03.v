(* C03 - World actions have exactly the documented effect, completely.
   Statements only; proofs in Proofs/WorldStep.v and Proofs/LoadFacts.v. *)
From stdpp Require Import gmap.
From Coq Require Import ZArith NArith.
From NSG Require Import Model.World Model.Load Proofs.WorldStep Proofs.WorldInv Proofs.LoadFacts.

(* ScanNetwork: exactly the existing hosts of the target network the source may connect to *)
Theorem C03_scan : forall w v src tn, src ∈ v_ctrl v ->
  exists v', step w v (AScan src tn) = (w, v') /\
    v_ctrl v' = v_ctrl v /\ v_svcs v' = v_svcs v /\ v_data v' = v_data v /\ v_nets v' = v_nets v /\ v_blocks v' = v_blocks v /\
    forall i, i ∈ v_hosts v' <-> i ∈ v_hosts v \/ (is_Some (w_ip2host w !! i) /\ in_net i tn = true /\ i ∈ get (w_fw w) src).
Proof. exact scan_effect. Qed.

(* FindServices: the target's services become ALL its services (local ones only if controlled);
   if any were found and the host was not known, the host and its networks are added *)
Theorem C03_find_services : forall w v src tgt, src ∈ v_ctrl v -> tgt ∈ get (w_fw w) src ->
  let found := services_of w tgt (v_ctrl v) in
  step w v (AFindServices src tgt) =
  (w, if bool_decide (found = ∅) then v else
        {| v_ctrl := v_ctrl v;
           v_hosts := if bool_decide (tgt ∈ v_hosts v) then v_hosts v else v_hosts v ∪ {[tgt]};
           v_svcs := <[tgt := found]> (v_svcs v);
           v_data := v_data v;
           v_nets := if bool_decide (tgt ∈ v_hosts v) then v_nets v else v_nets v ∪ nets_of w tgt;
           v_blocks := v_blocks v |}).
Proof. exact find_services_effect. Qed.
Theorem C03_services_all : forall w h c s,
  s ∈ services_of w h c <->
  exists n SS, w_ip2host w !! h = Some n /\ w_services w !! n = Some SS /\ s ∈ SS /\ (h ∈ c \/ svc_is_local s = false).
Proof. exact services_of_spec. Qed.
Theorem C03_nets_of : forall w h n, n ∈ nets_of w h <-> exists ips, w_nets w !! n = Some ips /\ h ∈ ips.
Proof. exact nets_of_spec. Qed.

(* FindData: all data located on the target and the blocks applied to it *)
Theorem C03_find_data : forall w v src tgt, src ∈ v_ctrl v -> tgt ∈ get (w_fw w) src -> tgt ∈ v_ctrl v ->
  let nd := match w_ip2host w !! tgt with Some n => get (w_data w) n | None => ∅ end in
  let nb := match w_ip2host w !! tgt with Some _ => get (w_blocks w) tgt | None => ∅ end in
  step w v (AFindData src tgt) =
  (w, {| v_ctrl := v_ctrl v; v_hosts := v_hosts v; v_svcs := v_svcs v;
         v_data := if bool_decide (nd = ∅) then v_data v else <[tgt := get (v_data v) tgt ∪ nd]> (v_data v);
         v_nets := v_nets v;
         v_blocks := if bool_decide (nb = ∅) then v_blocks v else <[tgt := get (v_blocks v) tgt ∪ nb]> (v_blocks v) |}).
Proof. exact find_data_effect. Qed.

(* ExploitService: target becomes controlled, its networks become known *)
Theorem C03_exploit : forall w v src tgt s, pre w v (AExploit src tgt s) = true ->
  step w v (AExploit src tgt s) =
  (w, {| v_ctrl := v_ctrl v ∪ {[tgt]}; v_hosts := v_hosts v; v_svcs := v_svcs v; v_data := v_data v;
         v_nets := v_nets v ∪ nets_of w tgt; v_blocks := v_blocks v |}).
Proof. exact exploit_effect. Qed.

(* ExfiltrateData: the datum is copied to the target host, for every agent that later looks there *)
Theorem C03_exfiltrate : forall w v src tgt d nt, pre w v (AExfil src tgt d) = true -> w_ip2host w !! tgt = Some nt ->
  step w v (AExfil src tgt d) =
  (set_data w (<[nt := get (w_data w) nt ∪ {[d]}]> (w_data w)),
   {| v_ctrl := v_ctrl v; v_hosts := v_hosts v; v_svcs := v_svcs v;
      v_data := <[tgt := get (v_data v) tgt ∪ {[d]}]> (v_data v); v_nets := v_nets v; v_blocks := v_blocks v |}).
Proof. exact exfil_effect. Qed.
Theorem C03_shared : forall w v src tgt d nt w' v' (u : view) (s2 : ip),
  pre w v (AExfil src tgt d) = true -> w_ip2host w !! tgt = Some nt ->
  step w v (AExfil src tgt d) = (w', v') -> tgt ∈ v_ctrl u -> d ∈ data_in w' tgt (v_ctrl u).
Proof. exact exfil_shared. Qed.

(* BlockIP: connectivity between target and blocked host is removed in both directions (and no
   other connection changes), and the block is recorded for both hosts *)
Theorem C03_block_connectivity : forall w v src tgt b w' v',
  pre w v (ABlock src tgt b) = true -> step w v (ABlock src tgt b) = (w', v') ->
  forall x y, y ∈ get (w_fw w') x <-> y ∈ get (w_fw w) x /\ ~ (x = tgt /\ y = b) /\ ~ (x = b /\ y = tgt).
Proof. exact block_connectivity. Qed.
Theorem C03_block_recorded : forall w v src tgt b w' v',
  pre w v (ABlock src tgt b) = true -> step w v (ABlock src tgt b) = (w', v') ->
  b ∈ get (w_blocks w') tgt /\ tgt ∈ get (w_blocks w') b /\ b ∈ get (v_blocks v') tgt /\ tgt ∈ get (v_blocks v') b.
Proof. exact block_recorded. Qed.

(* 'All' is measured against the scenario definition: every interface address, every passive
   service (except the start marker) and EVERY datapoint of every service is in the world tables;
   the tables contain nothing else *)
Theorem C03_load_ifaces : forall sc x, x ∈ all_ifaces sc ->
  is_Some (w_ip2host (load sc) !! fst (snd x)) /\ fst (snd x) ∈ get (w_nets (load sc)) (snd (snd x)).
Proof. exact load_ifaces_complete. Qed.
Theorem C03_load_services : forall sc nd s, nd ∈ s_nodes sc -> s ∈ real_svcs nd ->
  (sv_name s, str_passive, sv_version s, sv_local s) ∈ get (w_services (load sc)) (nc_id nd).
Proof. exact load_services_complete. Qed.
Theorem C03_load_data : forall sc nd s d, nd ∈ s_nodes sc -> s ∈ real_svcs nd -> d ∈ sv_data s ->
  (fst d, snd d, 0%Z, str_empty) ∈ get (w_data (load sc)) (nc_id nd) /\
  (fst d, snd d, 0%Z, str_empty) ∈ get (w_data0 (load sc)) (nc_id nd).
Proof. exact load_data_complete. Qed.
Theorem C03_load_data_exact : forall sc n d, d ∈ get (load_data sc) n <-> (n, d) ∈ all_data sc.
Proof. exact load_data_spec. Qed.
Theorem C03_load_services_exact : forall sc n s, s ∈ get (load_services sc) n <-> (n, s) ∈ all_services sc.
Proof. exact load_services_spec. Qed.
Theorem C03_scan_complete : forall sc v src tn x,
  src ∈ v_ctrl v -> x ∈ all_ifaces sc -> in_net (fst (snd x)) tn = true ->
  fst (snd x) ∈ get (w_fw (load sc)) src ->
  fst (snd x) ∈ v_hosts (snd (step (load sc) v (AScan src tn))).
Proof. exact scan_complete. Qed.

(* non-vacuity: a scenario with a node that has three datapoints in one service *)
Example C03_nonvacuous :
  let sc := {| s_nodes := [{| nc_id := 7%N; nc_ifaces := [(3232235778%N, (3232235776%N, 24%N))]; nc_active := false;
                             nc_svcs := [{| sv_name := 9%N; sv_version := 8%N; sv_local := false;
                                            sv_data := [(11%N, 12%N); (13%N, 14%N); (11%N, 15%N)] |}] |}];
               s_routers := []; s_use_fw := true |} in
  elements (get (w_data (load sc)) 7%N) ≡ₚ [(11%N, 12%N, 0%Z, 2%N); (13%N, 14%N, 0%Z, 2%N); (11%N, 15%N, 0%Z, 2%N)] /\
  is_Some (w_ip2host (load sc) !! 3232235778%N).
Proof.
  split.
  - vm_compute. apply NoDup_Permutation; [repeat constructor; set_solver | repeat constructor; set_solver | set_solver].
  - vm_compute. eauto.
Qed.

Print Assumptions C03_scan.
Print Assumptions C03_find_services.
Print Assumptions C03_services_all.
Print Assumptions C03_nets_of.
Print Assumptions C03_find_data.
Print Assumptions C03_exploit.
Print Assumptions C03_exfiltrate.
Print Assumptions C03_shared.
Print Assumptions C03_block_connectivity.
Print Assumptions C03_block_recorded.
Print Assumptions C03_load_ifaces.
Print Assumptions C03_load_services.
Print Assumptions C03_load_data.
Print Assumptions C03_load_data_exact.
Print Assumptions C03_load_services_exact.
Print Assumptions C03_scan_complete.
