(* Facts about the section readers (Model/ConfigParts.v), for every configuration tree: what is listed is what is
   read - every listed valid address, network, datum appears in the parsed part, nothing else does, the documented
   wildcards are kept, absent / empty / null keys give empty parts. *)
From Coq Require Import String Ascii ZArith List Bool Arith Lia.
From NSG Require Import Model.Json Model.Ipv4Text Model.Config Model.ConfigParts Proofs.ConfigFacts.
Import ListNotations.
Open Scope string_scope.

(* ---- the lazily evaluated validity test is the validity test ---- *)
Lemma octet_ok_short p : octet_ok p = true -> Nat.leb (String.length p) 3 = true.
Proof.
  unfold octet_ok. destruct p as [|c tl]; [discriminate|]. intros H.
  apply andb_true_iff in H as [H _]. apply andb_true_iff in H as [H _]. apply andb_true_iff in H as [_ H]. exact H.
Qed.

Theorem ip_ok_spec s : ip_ok s = ipv4_ok s.
Proof.
  unfold ip_ok. destruct (short_parts s) eqn:E; [reflexivity|].
  destruct (ipv4_ok s) eqn:H; [|reflexivity]. exfalso.
  unfold ipv4_ok in H. apply andb_true_iff in H as [_ H].
  unfold short_parts in E. rewrite forallb_forall in H.
  assert (F : forallb (fun p => Nat.leb (String.length p) 3) (split_dots s "") = true).
  { apply forallb_forall. intros p Hp. apply octet_ok_short, H, Hp. }
  congruence.
Qed.

(* ---- lists of optional lists ---- *)
Lemma concat_opt_in {A} (l : list (option (list A))) r x xs :
  concat_opt l = Some r -> In (Some xs) l -> In x xs -> In x r.
Proof.
  revert r. induction l as [|o tl IH]; intros r; cbn [concat_opt]; [intros _ []|].
  destruct o as [y|]; [|discriminate]. destruct (concat_opt tl) as [r0|] eqn:E; [|discriminate].
  intros [= <-] [Hin|Hin] Hx; apply in_or_app.
  - injection Hin as ->. left. exact Hx.
  - right. eapply IH; eauto.
Qed.

Lemma concat_opt_inv {A} (l : list (option (list A))) r x :
  concat_opt l = Some r -> In x r -> exists xs, In (Some xs) l /\ In x xs.
Proof.
  revert r. induction l as [|o tl IH]; intros r; cbn [concat_opt]; [intros [= <-] []|].
  destruct o as [y|]; [|discriminate]. destruct (concat_opt tl) as [r0|] eqn:E; [|discriminate].
  intros [= <-] Hx. apply in_app_or in Hx as [Hx|Hx].
  - exists y. split; [left; reflexivity | exact Hx].
  - destruct (IH r0 eq_refl Hx) as (xs & H1 & H2). exists xs. split; [right; exact H1 | exact H2].
Qed.

(* ---- hosts ---- *)
Definition listed_at (cfg : json) (role part key : string) (l : list json) : Prop :=
  section_value cfg role part key = Ok (Some (JArr l)).

Theorem read_hosts_absent cfg role part key :
  section_value cfg role part key = Ok None -> read_hosts cfg role part key = Ok [].
Proof. unfold read_hosts. intros ->. reflexivity. Qed.

(* every listed valid address is read, and so are the two documented wildcards *)
Theorem read_hosts_listed cfg role part key l r :
  listed_at cfg role part key l -> read_hosts cfg role part key = Ok r ->
  (forall s, In (JStr s) l -> ipv4_ok s = true -> In (HAddr s) r) /\
  (In (JStr "random") l -> In HRandom r) /\
  (In (JStr "all_local") l -> In HAllLocal r).
Proof.
  unfold listed_at, read_hosts. intros ->. destruct (concat_opt (map host_of l)) as [r0|] eqn:E; [|discriminate]. intros [= <-].
  split; [|split].
  - intros s Hs Hok.
    assert (Hn : host_of (JStr s) = Some [HAddr s]) by (cbn [host_of]; rewrite ip_ok_spec, Hok; reflexivity).
    eapply concat_opt_in; [exact E | apply in_map_iff; exists (JStr s); split; [exact Hn | exact Hs] | left; reflexivity].
  - intros Hs.
    assert (Hn : host_of (JStr "random") = Some [HRandom]) by (vm_compute; reflexivity).
    eapply concat_opt_in; [exact E | apply in_map_iff; exists (JStr "random"); split; [exact Hn | exact Hs] | left; reflexivity].
  - intros Hs.
    assert (Hn : host_of (JStr "all_local") = Some [HAllLocal]) by (vm_compute; reflexivity).
    eapply concat_opt_in; [exact E | apply in_map_iff; exists (JStr "all_local"); split; [exact Hn | exact Hs] | left; reflexivity].
Qed.

(* ... and nothing else: an address in the result is a listed valid address, a wildcard in the result is listed *)
Theorem read_hosts_only cfg role part key l r :
  listed_at cfg role part key l -> read_hosts cfg role part key = Ok r ->
  (forall s, In (HAddr s) r -> In (JStr s) l /\ ipv4_ok s = true) /\
  (In HRandom r -> In (JStr "random") l) /\
  (In HAllLocal r -> In (JStr "all_local") l).
Proof.
  unfold listed_at, read_hosts. intros ->. destruct (concat_opt (map host_of l)) as [r0|] eqn:E; [|discriminate]. intros [= <-].
  assert (Hinv : forall x, In x r0 -> exists s, In (JStr s) l /\
            In x (if ip_ok s then [HAddr s] else if String.eqb s "random" then [HRandom] else if String.eqb s "all_local" then [HAllLocal] else [])).
  { intros x Hx. destruct (concat_opt_inv _ _ _ E Hx) as (xs & H1 & H2). apply in_map_iff in H1 as (j & Hj & Hin).
    destruct j; try discriminate. cbn [host_of] in Hj. injection Hj as <-. eauto. }
  split; [|split].
  - intros s Hs. destruct (Hinv _ Hs) as (s0 & Hl & Hx). destruct (ip_ok s0) eqn:Ok0.
    + destruct Hx as [[= <-]|[]]. rewrite <- ip_ok_spec. auto.
    + destruct (String.eqb s0 "random"); [destruct Hx as [Hx|[]]; discriminate|].
      destruct (String.eqb s0 "all_local"); [destruct Hx as [Hx|[]]; discriminate | destruct Hx].
  - intros H. destruct (Hinv _ H) as (s0 & Hl & Hx). destruct (ip_ok s0); [destruct Hx as [Hx|[]]; discriminate|].
    destruct (String.eqb s0 "random") eqn:Er; [apply String.eqb_eq in Er; subst; exact Hl|].
    destruct (String.eqb s0 "all_local"); [destruct Hx as [Hx|[]]; discriminate | destruct Hx].
  - intros H. destruct (Hinv _ H) as (s0 & Hl & Hx). destruct (ip_ok s0); [destruct Hx as [Hx|[]]; discriminate|].
    destruct (String.eqb s0 "random"); [destruct Hx as [Hx|[]]; discriminate|].
    destruct (String.eqb s0 "all_local") eqn:Ea; [apply String.eqb_eq in Ea; subst; exact Hl | destruct Hx].
Qed.

(* ---- networks ---- *)
Theorem read_networks_absent cfg role part :
  section_value cfg role part "known_networks" = Ok None -> read_networks cfg role part = Ok [].
Proof. unfold read_networks. intros ->. reflexivity. Qed.

Theorem read_networks_listed cfg role part l r s h m :
  listed_at cfg role part "known_networks" l -> read_networks cfg role part = Ok r ->
  In (JStr s) l -> split_slash s "" = [h; m] -> ipv4_ok h = true -> mask_ok m = true ->
  In (h, Z.of_nat (dec_value m 0)) r.
Proof.
  unfold listed_at, read_networks. intros ->. destruct (concat_opt (map net_of l)) as [r0|] eqn:E; [|discriminate]. intros [= <-].
  intros Hs Hsp Hh Hm.
  assert (Hn : net_of (JStr s) = Some [(h, Z.of_nat (dec_value m 0))]).
  { cbn [net_of]. rewrite Hsp, ip_ok_spec, Hh, Hm. reflexivity. }
  eapply concat_opt_in; [exact E | apply in_map_iff; exists (JStr s); split; [exact Hn | exact Hs] | left; reflexivity].
Qed.

Theorem read_networks_only cfg role part l r h z :
  listed_at cfg role part "known_networks" l -> read_networks cfg role part = Ok r -> In (h, z) r ->
  exists s m, In (JStr s) l /\ split_slash s "" = [h; m] /\ ipv4_ok h = true /\ mask_ok m = true /\ z = Z.of_nat (dec_value m 0).
Proof.
  unfold listed_at, read_networks. intros ->. destruct (concat_opt (map net_of l)) as [r0|] eqn:E; [|discriminate]. intros [= <-] Hx.
  destruct (concat_opt_inv _ _ _ E Hx) as (xs & H1 & H2). apply in_map_iff in H1 as (j & Hj & Hin).
  destruct j; try discriminate. cbn [net_of] in Hj.
  destruct (split_slash s "") as [|h0 [|m0 [|x tl]]] eqn:Es; injection Hj as <-; try contradiction.
  destruct (ip_ok h0) eqn:Eh; [|contradiction]. destruct (mask_ok m0) eqn:Em; [|contradiction].
  destruct H2 as [[= <- <-]|[]]. exists s, m0. rewrite <- ip_ok_spec. auto.
Qed.

(* ---- data ---- *)
Theorem read_data_absent cfg role part :
  section_value cfg role part "known_data" = Ok None -> read_data cfg role part = Ok [].
Proof. unfold read_data. intros ->. reflexivity. Qed.

(* one host's list: as long as no "random" occurs every listed [owner, id] pair is read, in order, and nothing else *)
Lemma data_entry_items l : forall acc ps,
  data_entry_of l (DItems acc) = Ok (DItems ps) ->
  (forall p, In p ps <-> In p acc \/ exists j, In j l /\ datum_of j = Some (Some p)).
Proof.
  induction l as [|j tl IH]; intros acc ps; cbn [data_entry_of].
  - intros [= <-] p. split; [auto | intros [H|(j & [] & _)]; exact H].
  - destruct (datum_of j) as [[p0|]|] eqn:Ed; [| |discriminate].
    + intros H p. rewrite (IH _ _ H p). split.
      * intros [Hp|(j0 & Hj0 & Hd)]; [apply in_app_or in Hp as [Hp|[<-|[]]]; [auto | right; exists j; split; [left; reflexivity | exact Ed]] |
                                      right; exists j0; split; [right; exact Hj0 | exact Hd]].
      * intros [Hp|(j0 & [<-|Hj0] & Hd)]; [left; apply in_or_app; auto | left; apply in_or_app; right; left; congruence | right; eauto].
    + (* "random": the entry can only end as DRandom or raise *)
      intros H. exfalso. clear IH Ed. revert H. generalize tl. induction tl0 as [|j1 t1 IH1]; cbn [data_entry_of]; [discriminate|].
      destruct (datum_of j1) as [[p1|]|]; [discriminate | exact IH1 | discriminate].
Qed.

(* the dictionary loop when every key is a valid address: every key of the configuration has an entry in the result,
   read from the LAST value given for that key, and every entry of the result comes from a key of the configuration *)
Lemma read_data_loop_keys items : forall acc r,
  (forall kv, In kv items -> ipv4_ok (fst kv) = true) ->
  read_data_loop items acc = Ok r ->
  (forall ip, In ip (map fst r) <-> In ip (map fst acc) \/ In ip (map fst items)).
Proof.
  induction items as [|[ip v] tl IH]; intros acc r Hok; cbn [read_data_loop].
  - intros [= <-] ip0. split; [auto | intros [H|[]]; exact H].
  - pose proof (Hok (ip, v) (or_introl eq_refl)) as H0. cbn [fst] in H0. rewrite ip_ok_spec, H0. cbn [negb].
    destruct v; try discriminate. destruct (data_entry_of l (DItems [])) as [e| |] eqn:Ee; try discriminate.
    intros H ip0. rewrite (IH _ _ (fun kv Hin => Hok kv (or_intror Hin)) H ip0). cbn [map fst].
    rewrite map_app, in_app_iff. cbn [map fst In]. split.
    + intros [[Hf|[<-|[]]]|Ht]; [|right; left; reflexivity | right; right; exact Ht].
      left. apply in_map_iff in Hf as (kv & <- & Hkv). apply filter_In in Hkv as [Hkv _]. apply in_map, Hkv.
    + intros [Ha|[<-|Ht]]; [|left; right; left; reflexivity | right; exact Ht].
      destruct (String.eqb ip0 ip) eqn:E; [apply String.eqb_eq in E; subst; left; right; left; reflexivity|].
      left. left. apply in_map_iff in Ha as (kv & <- & Hkv). apply in_map_iff. exists kv. split; [reflexivity|].
      apply filter_In. split; [exact Hkv|]. rewrite E. reflexivity.
Qed.

(* ---- the assembled part ---- *)
Theorem read_part_fields cfg role part_name wb p :
  read_part cfg role part_name wb = Ok p ->
  read_networks cfg role part_name = Ok (p_nets p) /\
  read_hosts cfg role part_name "known_hosts" = Ok (p_hosts p) /\
  read_hosts cfg role part_name "controlled_hosts" = Ok (p_ctrl p) /\
  read_services cfg role part_name = Ok (p_svcs p) /\
  read_data cfg role part_name = Ok (p_data p) /\
  (if wb then read_blocks cfg role part_name = Ok (p_blocks p) else p_blocks p = []).
Proof.
  unfold read_part, bind.
  destruct (read_networks cfg role part_name) as [n| |]; try discriminate.
  destruct (read_hosts cfg role part_name "known_hosts") as [h| |]; try discriminate.
  destruct (read_hosts cfg role part_name "controlled_hosts") as [c| |]; try discriminate.
  destruct (read_services cfg role part_name) as [sv| |]; try discriminate.
  destruct wb.
  - destruct (read_blocks cfg role part_name) as [b| |]; try discriminate.
    destruct (read_data cfg role part_name) as [d| |]; try discriminate. intros [= <-]. repeat split; reflexivity.
  - destruct (read_data cfg role part_name) as [d| |]; try discriminate. intros [= <-]. repeat split; reflexivity.
Qed.

(* a section that is missing makes the reader raise KeyError (the game does not start): documented keys are the role and
   its two parts *)
Theorem section_missing cfg role part key pre k post o :
  ["coordinator"; "agents"; role; part] = (pre ++ k :: post)%list -> subscript cfg pre = inl (JObj o) -> jget k o = None ->
  section_value cfg role part key = Raises "KeyError".
Proof.
  intros Hp Hs Hk. unfold section_value. rewrite Hp, (subscript_absent cfg pre k post o Hs Hk). reflexivity.
Qed.
