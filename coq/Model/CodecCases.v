(* Support for the codec correspondence checks (C14, C15): decidable comparisons used by the
   generated case files.  Not part of any theorem. *)
From stdpp Require Import gmap strings.
From Coq Require Import ZArith.
From NSG Require Import Base.Prelude Model.Json Model.Ipv4Text Model.Codec Model.ViewCodec.
Open Scope string_scope.

Fixpoint json_eqb (a b : json) {struct a} : bool :=
  match a, b with
  | JNull, JNull => true
  | JBool x, JBool y => Bool.eqb x y
  | JNum x, JNum y => Z.eqb x y
  | JStr x, JStr y => String.eqb x y
  | JArr l, JArr l' =>
      (fix go (l l' : list json) : bool :=
         match l, l' with
         | [], [] => true
         | x :: tl, y :: tl' => json_eqb x y && go tl tl'
         | _, _ => false
         end) l l'
  | JObj o, JObj o' =>
      (fix go (o o' : list (string * json)) : bool :=
         match o, o' with
         | [], [] => true
         | (k, x) :: tl, (k', y) :: tl' => String.eqb k k' && json_eqb x y && go tl tl'
         | _, _ => false
         end) o o'
  | _, _ => false
  end.

Fixpoint params_exact (p q : params) : bool :=
  match p, q with
  | [], [] => true
  | (k, v) :: tl, (k', v') :: tl' => pkey_eqb k k' && pval_eqb v v' && params_exact tl tl'
  | _, _ => false
  end.
Definition action_exact (a b : action) : bool := atype_eqb (fst a) (fst b) && params_exact (snd a) (snd b).
Definition opt_action_exact (a b : option action) : bool :=
  match a, b with Some x, Some y => action_exact x y | None, None => true | _, _ => false end.

(* C14 cases *)
Definition check_enc (a : action) (j : json) : bool := json_eqb (enc_action a) j.
Definition check_dec (j : json) (expected : option action) : bool := opt_action_exact (dec_action j) expected.
Definition check_eq (a b : action) (impl_eq impl_hash_eq : bool) : bool :=
  Bool.eqb (action_eqb a b) impl_eq && implb impl_eq impl_hash_eq.

(* C15 cases: views are compared through their canonical encoding *)
Definition opt_json_eqb (a b : option json) : bool :=
  match a, b with Some x, Some y => json_eqb x y | None, None => true | _, _ => false end.
Definition check_vdec (use_json : bool) (j : json) (expected : option view) : bool :=
  opt_json_eqb (enc_view <$> (if use_json then dec_view_json j else dec_view_dict j)) (enc_view <$> expected).
(* the implementation's encoding, decoded by the model, is the view that was encoded *)
Definition check_venc (v : view) (j : json) : bool :=
  opt_json_eqb (enc_view <$> dec_view_json j) (Some (enc_view v)).

Fixpoint false_indices (i : nat) (l : list bool) : list nat :=
  match l with
  | [] => []
  | true :: tl => false_indices (S i) tl
  | false :: tl => i :: false_indices (S i) tl
  end.
