(* Facts about reading a setting through a getter descriptor (Model/Config.v), for every configuration tree. *)
From Coq Require Import String ZArith List Bool.
From NSG Require Import Model.Json Model.Config.
Import ListNotations.
Open Scope string_scope.

Lemma subscript_app v p q :
  subscript v (p ++ q)%list = match subscript v p with inl v' => subscript v' q | inr e => inr e end.
Proof.
  revert v. induction p as [|k tl IH]; intros v; cbn [app subscript]; [reflexivity|].
  destruct (subscript1 v k); [apply IH | reflexivity].
Qed.

(* a key missing in the (nested) section it should be in: KeyError, whatever follows *)
Theorem subscript_absent cfg pre k post o :
  subscript cfg pre = inl (JObj o) -> jget k o = None -> subscript cfg (pre ++ k :: post)%list = inr "KeyError".
Proof. intros Hp Hk. rewrite subscript_app, Hp. cbn [subscript subscript1]. rewrite Hk. reflexivity. Qed.

(* a whole section missing is the same thing one level up; a section that is present but empty (`env:` = null) is a
   TypeError instead *)
Theorem subscript_null cfg pre k post :
  subscript cfg pre = inl JNull -> subscript cfg (pre ++ k :: post)%list = inr "TypeError".
Proof. intros Hp. rewrite subscript_app, Hp. reflexivity. Qed.

Theorem read_absent_default (d : descriptor) arg cfg pre k post o :
  map (subst arg) (d_path d) = (pre ++ k :: post)%list -> subscript cfg pre = inl (JObj o) -> jget k o = None ->
  str_in "KeyError" (d_excs d) = true ->
  read d arg cfg = ODefault (Config.post (d_ret d) (literal (d_default d))).
Proof.
  intros Hpath Hp Hk Hc. unfold read. rewrite Hpath, (subscript_absent cfg pre k post o Hp Hk), Hc. reflexivity.
Qed.

Theorem read_present (d : descriptor) arg cfg v v' :
  subscript cfg (map (subst arg) (d_path d)) = inl v -> convert (d_conv d) v = inl v' ->
  read d arg cfg = OVal (Config.post (d_ret d) v').
Proof. intros Hs Hc. unfold read. rewrite Hs, Hc. reflexivity. Qed.

(* a getter lets through exactly the exceptions it does not catch *)
Theorem read_raises (d : descriptor) arg cfg e :
  read d arg cfg = ORaise e -> str_in e (d_excs d) = false.
Proof.
  unfold read. destruct (subscript cfg _) as [v|e0].
  - destruct (convert (d_conv d) v) as [v'|e1]; [discriminate|].
    destruct (str_in e1 (d_excs d)) eqn:E; [discriminate|]. intros [= <-]. exact E.
  - destruct (str_in e0 (d_excs d)) eqn:E; [discriminate|]. intros [= <-]. exact E.
Qed.

(* a configured integer is returned as it is by an `int` getter; a configured value by a plain getter *)
Theorem read_configured_int (d : descriptor) arg cfg z :
  d_conv d = "int" -> String.prefix "bool(" (d_ret d) = false ->
  subscript cfg (map (subst arg) (d_path d)) = inl (JNum z) -> read d arg cfg = OVal (JNum z).
Proof.
  intros Hc Hr Hs. rewrite (read_present d arg cfg (JNum z) (JNum z) Hs); [|unfold convert; rewrite Hc; reflexivity].
  unfold Config.post. rewrite Hr. reflexivity.
Qed.
Theorem read_configured_plain (d : descriptor) arg cfg v :
  d_conv d = "" -> String.prefix "bool(" (d_ret d) = false ->
  subscript cfg (map (subst arg) (d_path d)) = inl v -> read d arg cfg = OVal v.
Proof.
  intros Hc Hr Hs. rewrite (read_present d arg cfg v v Hs); [|unfold convert; rewrite Hc; reflexivity].
  unfold Config.post. rewrite Hr. reflexivity.
Qed.
