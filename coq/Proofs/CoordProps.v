(* Property-level facts about the coordinator model that follow from the structural invariant or
   directly from the step functions. *)
From Coq Require Import ZArith NArith List Bool Arith Lia.
From NSG Require Import Model.Coord Proofs.CoordBase Proofs.CoordInv Proofs.CoordInvConn Proofs.CoordInvDispatch Proofs.CoordInvHandler.
Import ListNotations.

Section Props.
  Context {V W G : Type}.
  Variable wstep : W -> V -> G -> W * V.
  Variable wreset : W -> W.
  Variable winit : W -> role -> W * V.
  Variable goal : role -> V -> bool.
  Variable detect : list G -> G -> bool.
  Variable cfg : config.

  Notation state := (@state V W G).
  Notation conn := (@conn V G).
  Notation handler := (@handler V G).
  Notation agent := (@agent V G).
  Notation msg := (@msg G).
  Notation Inv := (@Inv V W G).
  Notation exec := (@exec V W G wstep wreset winit goal detect cfg).
  Notation execs := (@execs V W G wstep wreset winit goal detect cfg).
  Notation h_start := (@h_start V W G wstep winit goal detect cfg).
  Notation h_wake := (@h_wake V W G wstep winit goal detect cfg).
  Notation quiescent := (@quiescent V W G wstep winit goal detect cfg).

  (* ---------------------------------------------------------------------------------------------
     C01: in a quiescent state every awaited answer is held back by a handler parked at one of the
     barriers whose wait has not been released. *)
  Definition parked_unreleased (h : handler) : Prop :=
    match h_pc h with
    | PJoinStart false _ | PRewards false _ _ | PResetDone false _ | PResetStart false _ => True
    | _ => False
    end.

  Theorem quiescent_awaiting (s : state) c cn :
    Inv s -> quiescent s = true -> alookup c (conns s) = Some cn -> c_state cn = CAwaiting ->
    exists h, In h (handlers s) /\ h_addr h = c /\ parked_unreleased h /\
              naq c (aq s) = 0 /\ c_queue cn = [] /\ nh c (handlers s) = 1.
  Proof.
    intros Hi Hq Hl Hst. unfold Coord.quiescent in Hq.
    apply andb_true_iff in Hq as [Hq Hrs]. apply andb_true_iff in Hq as [Hq Hen].
    apply andb_true_iff in Hq as [Hq Hh]. apply andb_true_iff in Hq as [Hc Haq].
    pose proof (I_tok s Hi c cn Hl) as Ht. rewrite Hst in Ht. unfold tok, nq in Ht. rewrite Hl in Ht.
    assert (Haq0 : aq s = []) by (destruct (aq s); [reflexivity | discriminate]).
    rewrite Haq0 in Ht. unfold naq in Ht. simpl in Ht.
    assert (Hq0 : c_queue cn = []).
    { rewrite forallb_forall in Hc. specialize (Hc (c, cn) (alookup_in c _ cn Hl)). simpl in Hc.
      unfold conn_runnable in Hc. rewrite Hst in Hc. destruct (c_queue cn); [reflexivity | discriminate]. }
    rewrite Hq0 in Ht. simpl in Ht.
    assert (Hn1 : nh c (handlers s) = 1) by lia.
    assert (Hex : exists h, In h (handlers s) /\ h_addr h = c).
    { unfold nh in Hn1. destruct (filter (fun h => N.eqb (h_addr h) c) (handlers s)) as [|h tl] eqn:Ef; [discriminate|].
      assert (Hin : In h (filter (fun h => N.eqb (h_addr h) c) (handlers s))) by (rewrite Ef; left; reflexivity).
      apply filter_In in Hin as [Hin Ha]. apply N.eqb_eq in Ha. eauto. }
    destruct Hex as (h & Hin & Ha). exists h. repeat split; try assumption.
    - rewrite forallb_forall in Hh. specialize (Hh h Hin). unfold Coord.h_wake in Hh. unfold parked_unreleased.
      destruct (h_pc h) as [m|[] v|[] a v|[] t|[] t]; try discriminate; try exact I.
      destruct (ev_start s); discriminate.
    - rewrite Haq0. reflexivity.
  Qed.

  (* ---------------------------------------------------------------------------------------------
     C01: requests and responses alternate on every connection: never a response nobody asked for,
     never two for one request. *)
  Definition alt_ok (cn : conn) : Prop :=
    match c_state cn with
    | CNew => c_reqs cn = 0 /\ c_outs cn = []
    | CReading => c_reqs cn = length (c_outs cn)
    | CAwaiting => c_reqs cn = S (length (c_outs cn))
    | CClosed => length (c_outs cn) <= c_reqs cn <= S (length (c_outs cn))
    end.
  Definition Alt (s : state) : Prop := forall c cn, alookup c (conns s) = Some cn -> alt_ok cn.

  Lemma alt_upd (s s' : state) c (f : conn -> conn) :
    conns s' = aupdate c f (conns s) ->
    Alt s -> (forall cn, alookup c (conns s) = Some cn -> alt_ok cn -> alt_ok (f cn)) -> Alt s'.
  Proof.
    intros Ec Ha Hf c' cn' Hl. rewrite Ec in Hl. destruct (N.eq_dec c c') as [->|Hne].
    - rewrite alookup_aupdate_eq in Hl. destruct (alookup c' (conns s)) as [cn|] eqn:E; [|discriminate].
      injection Hl as <-. apply Hf; [reflexivity | apply (Ha c' cn E)].
    - rewrite alookup_aupdate_ne in Hl by exact Hne. apply (Ha c' cn' Hl).
  Qed.

  Lemma alt_aupdate (s : state) c (f : conn -> conn) :
    Alt s -> (forall cn, alookup c (conns s) = Some cn -> alt_ok cn -> alt_ok (f cn)) -> Alt (set_conns s (aupdate c f (conns s))).
  Proof. apply alt_upd. reflexivity. Qed.

  Lemma alt_same_conns (s s' : state) : conns s' = conns s -> Alt s -> Alt s'.
  Proof. intros E Ha c cn Hl. rewrite E in Hl. apply (Ha c cn Hl). Qed.

  Lemma alt_put (s : state) c q : Alt s -> Alt (put s c q).
  Proof.
    intros Ha. unfold put. apply alt_aupdate; [exact Ha|]. intros cn _ Hok.
    destruct (has_queue cn); [|exact Hok]. unfold alt_ok in *. simpl. exact Hok.
  Qed.

  Lemma alt_leave (s : state) c : Alt s -> (forall cn, alookup c (conns s) = Some cn -> c_state cn = CReading \/ c_state cn = CAwaiting) -> Alt (leave s c).
  Proof.
    intros Ha Hst. unfold leave, cleanup. eapply (alt_upd s _ c); [reflexivity | exact Ha|].
    intros cn Hl Hok. unfold alt_ok in *. simpl. destruct (Hst cn Hl) as [E|E]; rewrite E in Hok; lia.
  Qed.

  Lemma alt_conn_read (s : state) c cn : Alt s -> alookup c (conns s) = Some cn -> c_state cn = CReading -> Alt (conn_read s c cn).
  Proof.
    intros Ha Hl Hst. pose proof (Ha c cn Hl) as Hok. unfold alt_ok in Hok. rewrite Hst in Hok.
    unfold conn_read. destruct (c_rerr cn).
    { apply alt_leave; [exact Ha|]. intros cn' Hl'. rewrite Hl in Hl'. injection Hl' as <-. auto. }
    destruct (c_inbox cn) as [[m|]|].
    - eapply (alt_upd s _ c); [reflexivity | exact Ha|].
      intros cn0 _ _. unfold alt_ok. simpl. lia.
    - apply alt_leave.
      + apply (alt_aupdate s c _ Ha). intros cn0 _ H0. exact H0.
      + intros cn'. simpl. rewrite alookup_aupdate_eq, Hl. intros [= <-]. simpl. auto.
    - destruct (c_eof cn).
      + apply alt_leave; [exact Ha|]. intros cn' Hl'. rewrite Hl in Hl'. injection Hl' as <-. auto.
      + apply (alt_aupdate s c _ Ha). intros cn0 Hl0 H0. rewrite Hl in Hl0. injection Hl0 as <-.
        unfold alt_ok. simpl. exact Hok.
  Qed.

  Lemma alt_conn_run (s s' : state) c : Alt s -> conn_run cfg s c = Some s' -> Alt s'.
  Proof.
    intros Ha. unfold conn_run. destruct (alookup c (conns s)) as [cn|] eqn:Hl; [|discriminate].
    destruct (negb (conn_runnable cn)); [discriminate|].
    pose proof (Ha c cn Hl) as Hok. unfold alt_ok in Hok.
    destruct (c_state cn) eqn:Hst.
    - destruct (Nat.leb (required cfg) (served s)); intros [= <-].
      + apply (alt_aupdate s c _ Ha). intros cn0 Hl0 _. rewrite Hl in Hl0. injection Hl0 as <-.
        unfold alt_ok. simpl. destruct Hok as [-> ->]. simpl. lia.
      + set (cn' := c_set_state cn CReading).
        apply (alt_conn_read (set_served (set_conns s (aupdate c (fun _ => cn') (conns s))) (S (served s))) c cn').
        * eapply (alt_upd s _ c); [reflexivity | exact Ha|].
          intros cn0 _ _. unfold alt_ok, cn'. simpl. destruct Hok as [-> ->]. reflexivity.
        * simpl. rewrite alookup_aupdate_eq, Hl. reflexivity.
        * reflexivity.
    - intros [= <-]. apply alt_conn_read; assumption.
    - destruct (c_queue cn) as [|[r|] q']; [discriminate| |].
      + destruct (c_wfail cn); intros [= <-].
        * apply alt_leave.
          -- apply (alt_aupdate s c _ Ha). intros cn0 _ H0. exact H0.
          -- intros cn'. simpl. rewrite alookup_aupdate_eq, Hl. intros [= <-]. simpl. auto.
        * match goal with |- Alt (conn_read _ c ?X) => set (cn' := X) end.
          apply (alt_conn_read _ c cn').
          -- apply (alt_aupdate s c (fun _ => cn') Ha). intros cn0 _ _. unfold alt_ok, cn'. simpl. rewrite app_length. simpl. lia.
          -- simpl. rewrite alookup_aupdate_eq, Hl. reflexivity.
          -- reflexivity.
      + intros [= <-]. unfold cleanup. eapply (alt_upd s _ c); [simpl; apply aupdate_aupdate | exact Ha|].
        intros cn0 Hl0 _. rewrite Hl in Hl0. injection Hl0 as <-. unfold alt_ok. simpl. lia.
    - discriminate.
  Qed.

  Lemma alt_dispatch (s : state) q : Alt s -> Alt (fold_left dispatch1 q s).
  Proof.
    revert s. induction q as [|[c m] tl IH]; intros s Ha; simpl; [exact Ha|]. apply IH.
    destruct m; try (eapply alt_same_conns; [reflexivity | exact Ha]). apply alt_put, Ha.
  Qed.

  (* agent-level updates and handler bookkeeping do not touch connections *)
  Lemma alt_remove_handler (s : state) id : Alt s -> Alt (remove_handler s id).
  Proof. apply alt_same_conns. reflexivity. Qed.
  Lemma alt_park (s : state) id pc : Alt s -> Alt (park s id pc).
  Proof. apply alt_same_conns. reflexivity. Qed.

  Lemma alt_h_start (s : state) id c m : Alt s -> Alt (h_start s id c m).
  Proof.
    intros Ha. unfold Coord.h_start. destruct m as [|info| |want|act valid].
    - apply alt_remove_handler, Ha.
    - destruct (alookup c (agents s)); [apply alt_put, alt_remove_handler, Ha|].
      destruct info as [[name [r|]]|]; try (apply alt_put, alt_remove_handler, Ha).
      destruct (negb (allowed cfg r)); [apply alt_put, alt_remove_handler, Ha|].
      destruct (winit (world s) r) as [w' v].
      match goal with |- Alt (if ev_start ?S2 then _ else _) => assert (H2 : Alt S2) end.
      { destruct (Nat.eqb _ _); eapply alt_same_conns; try exact Ha; reflexivity. }
      destruct (ev_start _); [apply alt_put, alt_remove_handler, H2 | apply alt_park, H2].
    - apply alt_put, alt_remove_handler. eapply alt_same_conns; [|exact Ha].
      unfold remove_agent. destruct (alookup c (agents s)); [|reflexivity]. destruct (_ && _); destruct (all_ended _); reflexivity.
    - destruct (alookup c (agents s)); [|apply alt_put, alt_remove_handler, Ha].
      apply alt_park. destruct (all_req _); eapply alt_same_conns; try exact Ha; reflexivity.
    - destruct (alookup c (agents s)) as [a|]; [|apply alt_put, alt_remove_handler, Ha].
      destruct (negb valid); [apply alt_put, alt_remove_handler, Ha|].
      destruct (a_ended a); [apply alt_put, alt_remove_handler, Ha|].
      destruct (wstep (world s) (a_view a) act) as [w' v'].
      match goal with |- Alt (if _ then park ?S2 _ _ else _) => assert (H2 : Alt S2) end.
      { destruct (all_ended _); eapply alt_same_conns; try exact Ha; reflexivity. }
      match goal with |- Alt (if ?b then _ else _) => destruct b end; [apply alt_park, H2|].
      unfold game_finish. destruct (alookup c (agents _)); [apply alt_put, alt_remove_handler; eapply alt_same_conns; [|exact H2]; reflexivity | apply alt_remove_handler, H2].
  Qed.

  Lemma alt_h_wake (s s' : state) h : Alt s -> h_wake s h = Some s' -> Alt s'.
  Proof.
    intros Ha. unfold Coord.h_wake. destruct (h_pc h) as [m|[] v|[] a v|[] t|[] t]; try discriminate.
    - intros [= <-]. apply alt_h_start, Ha.
    - intros [= <-]. apply alt_put, alt_remove_handler, Ha.
    - intros [= <-]. unfold game_finish. destruct (alookup _ _); [apply alt_put, alt_remove_handler; eapply alt_same_conns; [|exact Ha]; reflexivity | apply alt_remove_handler, Ha].
    - destruct (ev_start s); intros [= <-].
      + unfold reset_finish. destruct (alookup _ _); [apply alt_put, alt_remove_handler; eapply alt_same_conns; [|exact Ha]; reflexivity | apply alt_remove_handler, Ha].
      + apply alt_park, Ha.
    - intros [= <-]. unfold reset_finish. destruct (alookup _ _); [apply alt_put, alt_remove_handler; eapply alt_same_conns; [|exact Ha]; reflexivity | apply alt_remove_handler, Ha].
  Qed.

  Theorem alt_exec (s s' : state) l : Alt s -> exec s l = Some s' -> Alt s'.
  Proof.
    intros Ha. destruct l as [c|c k|c|c|c|t]; cbn [Coord.exec].
    - destruct (alookup c (conns s)) eqn:Hl; [discriminate|]. intros [= <-].
      intros c' cn' Hl'. simpl in Hl'. rewrite alookup_app in Hl'. destruct (alookup c' (conns s)) eqn:E.
      + injection Hl' as <-. apply (Ha c' _ E).
      + simpl in Hl'. destruct (N.eqb c' c); [|discriminate]. injection Hl' as <-. unfold alt_ok. simpl. auto.
    - destruct (alookup c (conns s)) as [cn|]; [|discriminate]. destruct (c_inbox cn); [discriminate|].
      destruct (c_state cn); try discriminate; (destruct (c_eof cn); [discriminate|]; intros [= <-]; apply (alt_aupdate s c _ Ha); intros cn0 _ H0; exact H0).
    - destruct (alookup c (conns s)); [|discriminate]. intros [= <-]. apply (alt_aupdate s c _ Ha). intros cn0 _ H0. exact H0.
    - destruct (alookup c (conns s)); [|discriminate]. intros [= <-]. apply (alt_aupdate s c _ Ha). intros cn0 _ H0. exact H0.
    - destruct (alookup c (conns s)); [|discriminate]. intros [= <-]. apply (alt_aupdate s c _ Ha). intros cn0 _ H0. exact H0.
    - destruct t as [c| |id| |].
      + apply alt_conn_run, Ha.
      + unfold dispatch_run. destruct (aq s) as [|x q]; [discriminate|]. intros [= <-].
        change (Alt (fold_left dispatch1 (x :: q) (set_aq s []))). apply alt_dispatch. eapply alt_same_conns; [|exact Ha]. reflexivity.
      + unfold handler_run. destruct (find _ _) as [h|]; [|discriminate]. apply alt_h_wake, Ha.
      + unfold rewards_run. destruct (negb (ev_end s)); [discriminate|]. destruct (negb _); intros [= <-]; eapply alt_same_conns; try exact Ha; reflexivity.
      + unfold reset_run. destruct (negb (ev_reset s)); [discriminate|]. destruct (negb _); [intros [= <-]; eapply alt_same_conns; [|exact Ha]; reflexivity|].
        destruct (fold_left _ _ _) as [[w' ags] fl]. intros [= <-]. eapply alt_same_conns; [|exact Ha]. reflexivity.
  Qed.

  Theorem alt_reachable w ls s : execs (init_state w) ls = Some s -> Alt s.
  Proof.
    assert (H0 : Alt (@init_state V W G w)) by (intros c cn H; discriminate).
    revert H0. generalize (@init_state V W G w). induction ls as [|l tl IH]; intros s0 H0; simpl; [intros [= <-]; exact H0|].
    destruct (exec s0 l) as [s1|] eqn:E; [|discriminate]. apply IH. eapply alt_exec; eauto.
  Qed.

  (* corollaries for every reachable state, with the invariant spelled out *)
  Theorem tokens_reachable w ls s : execs (init_state w) ls = Some s ->
    forall c cn, alookup c (conns s) = Some cn ->
      match c_state cn with
      | CNew | CReading => naq c (aq s) + nh c (handlers s) + length (c_queue cn) = 0
      | CAwaiting => naq c (aq s) + nh c (handlers s) + length (c_queue cn) = 1
      | CClosed => c_queue cn = [] /\ (forall m, In (c, m) (aq s) -> m = MQuit) /\
                   (forall h, In h (handlers s) -> h_addr h = c -> spawned_msg h = Some MQuit)
      end.
  Proof.
    intros Hr c cn Hl. pose proof (inv_reachable wstep wreset winit goal detect cfg w ls s Hr) as Hi.
    pose proof (I_tok s Hi c cn Hl) as Ht. unfold tok, nq in Ht. rewrite Hl in Ht. exact Ht.
  Qed.

  Theorem queue_bound_reachable w ls s : execs (init_state w) ls = Some s ->
    forall c cn, alookup c (conns s) = Some cn -> length (c_queue cn) <= 1.
  Proof.
    intros Hr c cn Hl. pose proof (tokens_reachable w ls s Hr c cn Hl) as Ht.
    destruct (c_state cn); try lia. destruct Ht as (-> & _). simpl. lia.
  Qed.

  Theorem served_reachable w ls s : execs (init_state w) ls = Some s ->
    served s = length (filter (fun x => match c_state (snd x) with CReading | CAwaiting => true | _ => false end) (conns s)).
  Proof. intros Hr. apply (I_served s (inv_reachable wstep wreset winit goal detect cfg w ls s Hr)). Qed.

  Theorem quiescent_reachable w ls s c cn : execs (init_state w) ls = Some s ->
    quiescent s = true -> alookup c (conns s) = Some cn -> c_state cn = CAwaiting ->
    exists h, In h (handlers s) /\ h_addr h = c /\ parked_unreleased h /\
              naq c (aq s) = 0 /\ c_queue cn = [] /\ nh c (handlers s) = 1.
  Proof. intros Hr. apply quiescent_awaiting. apply (inv_reachable wstep wreset winit goal detect cfg w ls s Hr). Qed.

  Theorem parked_have_agents_reachable w ls s h : execs (init_state w) ls = Some s ->
    In h (handlers s) -> parked h -> alookup (h_addr h) (agents s) <> None.
  Proof. intros Hr. apply (I_parked s (inv_reachable wstep wreset winit goal detect cfg w ls s Hr)). Qed.

  (* ---------------------------------------------------------------------------------------------
     C18: the number of served connections never exceeds the limit. *)
  Definition Bound (s : state) : Prop := served s <= required cfg.

  Lemma served_conn_read (s : state) c cn : served (conn_read s c cn) <= served s.
  Proof.
    unfold conn_read, leave, cleanup. destruct (c_rerr cn); [simpl; lia|].
    destruct (c_inbox cn) as [[m|]|]; simpl; try lia. destruct (c_eof cn); simpl; lia.
  Qed.

  Theorem bound_exec (s s' : state) l : Bound s -> exec s l = Some s' -> Bound s'.
  Proof.
    unfold Bound. intros Hb. destruct l as [c|c k|c|c|c|t]; cbn [Coord.exec].
    - destruct (alookup c (conns s)); [discriminate|]. intros [= <-]. exact Hb.
    - destruct (alookup c (conns s)) as [cn|]; [|discriminate]. destruct (c_inbox cn); [discriminate|].
      destruct (c_state cn); try discriminate; (destruct (c_eof cn); [discriminate|]; intros [= <-]; exact Hb).
    - destruct (alookup c (conns s)); [|discriminate]. intros [= <-]. exact Hb.
    - destruct (alookup c (conns s)); [|discriminate]. intros [= <-]. exact Hb.
    - destruct (alookup c (conns s)); [|discriminate]. intros [= <-]. exact Hb.
    - destruct t as [c| |id| |].
      + unfold conn_run. destruct (alookup c (conns s)) as [cn|]; [|discriminate].
        destruct (negb (conn_runnable cn)); [discriminate|].
        destruct (c_state cn).
        * destruct (Nat.leb (required cfg) (served s)) eqn:E; intros [= <-]; [exact Hb|].
          apply Nat.leb_gt in E. eapply Nat.le_trans; [apply served_conn_read|]. simpl. lia.
        * intros [= <-]. eapply Nat.le_trans; [apply served_conn_read|]. exact Hb.
        * destruct (c_queue cn) as [|[r|] q']; [discriminate| |].
          -- destruct (c_wfail cn); intros [= <-]; [unfold leave, cleanup; simpl; lia|].
             eapply Nat.le_trans; [apply served_conn_read|]. exact Hb.
          -- intros [= <-]. unfold cleanup. simpl. lia.
        * discriminate.
      + unfold dispatch_run. destruct (aq s) as [|x q]; [discriminate|]. intros [= <-].
        assert (H : forall l (t : state), served (fold_left dispatch1 l t) = served t).
        { induction l as [|[c m] tl IH]; intros t; simpl; [reflexivity|]. rewrite IH. destruct m; reflexivity. }
        change (served (fold_left dispatch1 (x :: q) (set_aq s [])) <= required cfg). rewrite H. exact Hb.
      + unfold handler_run. destruct (find _ _) as [h|]; [|discriminate].
        assert (Hs : forall s1 i c m, served (h_start s1 i c m) = served s1).
        { intros s1 i c m. unfold Coord.h_start. destruct m as [|info| |want|act valid]; try reflexivity.
          - destruct (alookup c (agents s1)); [reflexivity|]. destruct info as [[name [r|]]|]; try reflexivity.
            destruct (negb (allowed cfg r)); [reflexivity|]. destruct (winit (world s1) r).
            destruct (Nat.eqb _ _); destruct (ev_start _); reflexivity.
          - simpl. unfold remove_agent. destruct (alookup c (agents s1)); [|reflexivity]. destruct (_ && _); destruct (all_ended _); reflexivity.
          - destruct (alookup c (agents s1)); [|reflexivity]. destruct (all_req _); reflexivity.
          - destruct (alookup c (agents s1)) as [a|]; [|reflexivity]. destruct (negb valid); [reflexivity|].
            destruct (a_ended a); [reflexivity|]. destruct (wstep (world s1) (a_view a) act).
            match goal with |- served (if ?b then _ else _) = _ => destruct b end.
            + destruct (all_ended _); reflexivity.
            + unfold game_finish. destruct (all_ended _); simpl; destruct (alookup c _); reflexivity. }
        unfold Coord.h_wake. destruct (h_pc h) as [m|[] v|[] a v|[] t|[] t]; try discriminate; try (intros [= <-]).
        * rewrite Hs. exact Hb.
        * exact Hb.
        * unfold game_finish. destruct (alookup _ _); exact Hb.
        * destruct (ev_start s); intros [= <-]; [unfold reset_finish; destruct (alookup _ _); exact Hb | exact Hb].
        * unfold reset_finish. destruct (alookup _ _); exact Hb.
      + unfold rewards_run. destruct (negb (ev_end s)); [discriminate|]. destruct (negb _); intros [= <-]; exact Hb.
      + unfold reset_run. destruct (negb (ev_reset s)); [discriminate|]. destruct (negb _); [intros [= <-]; exact Hb|].
        destruct (fold_left _ _ _) as [[w' ags] fl]. intros [= <-]. exact Hb.
  Qed.

  Theorem bound_reachable w ls s : execs (init_state w) ls = Some s -> Bound s.
  Proof.
    assert (H0 : Bound (@init_state V W G w)) by (unfold Bound; simpl; lia).
    revert H0. generalize (@init_state V W G w). induction ls as [|l tl IH]; intros s0 H0; simpl; [intros [= <-]; exact H0|].
    destruct (exec s0 l) as [s1|] eqn:E; [|discriminate]. apply IH. eapply bound_exec; eauto.
  Qed.
End Props.
