(* M2: the scenario loader (_process_cyst_config) and the initial view (_create_state_from_view).
   A scenario is an independent reading of the CYST configuration objects.  No proofs here. *)
From stdpp Require Import gmap.
From Coq Require Import ZArith NArith.
From NSG Require Import Model.World.

(* interned strings with a fixed meaning *)
Definition str_marker : N := 0.      (* "can_attack_start_here" *)
Definition str_passive : N := 1.     (* "passive" *)
Definition str_empty : N := 2.       (* "" *)

Record svccfg := { sv_name : N; sv_version : N; sv_local : bool; sv_data : list (N * N) }.  (* data: (owner, description) *)
Record nodecfg := { nc_id : node; nc_ifaces : list (ip * net); nc_active : bool; nc_svcs : list svccfg }.
Record rule := { ru_src : net; ru_dst : net; ru_allow : bool }.
Record routercfg := { rc_id : node; rc_internet : bool; rc_ifaces : list (ip * net); rc_rules : list rule }.
Record scenario := { s_nodes : list nodecfg; s_routers : list routercfg; s_use_fw : bool }.

Definition real_routers (sc : scenario) : list routercfg := filter (fun r => rc_internet r = false) (s_routers sc).

(* all (node id, interface) pairs in processing order: nodes first, then routers *)
Definition all_ifaces (sc : scenario) : list (node * (ip * net)) :=
  flat_map (fun n => map (fun i => (nc_id n, i)) (nc_ifaces n)) (s_nodes sc) ++
  flat_map (fun r => map (fun i => (rc_id r, i)) (rc_ifaces r)) (real_routers sc).

Definition load_ip2host (sc : scenario) : gmap ip node :=
  fold_left (fun m x => <[fst (snd x) := fst x]> m) (all_ifaces sc) ∅.

Definition load_nets (sc : scenario) : gmap net (gset ip) :=
  fold_left (fun m x => add_to m (snd (snd x)) {[fst (snd x)]}) (all_ifaces sc) ∅.

Definition real_svcs (n : nodecfg) : list svccfg := filter (fun s => negb (N.eqb (sv_name s) str_marker)) (nc_svcs n).

(* (node id, Service) for every non-marker passive service, in processing order *)
Definition all_services (sc : scenario) : list (node * svc) :=
  flat_map (fun n => map (fun s => (nc_id n, (sv_name s, str_passive, sv_version s, sv_local s))) (real_svcs n)) (s_nodes sc).

Definition load_services (sc : scenario) : gmap node (gset svc) :=
  fold_left (fun m x => add_to m (fst x) {[snd x]}) (all_services sc) ∅.

(* (node id, Data) for every datapoint of every non-marker service *)
Definition all_data (sc : scenario) : list (node * data) :=
  flat_map (fun n => flat_map (fun s => map (fun d => (nc_id n, (fst d, snd d, 0%Z, str_empty))) (sv_data s)) (real_svcs n)) (s_nodes sc).

Definition load_data (sc : scenario) : gmap node (gset data) :=
  fold_left (fun m x => add_to m (fst x) {[snd x]}) (all_data sc) ∅.

(* hosts_to_start: every interface of a node with active services, and for every marker service
   the last interface of the node *)
Definition load_start (sc : scenario) : list ip :=
  flat_map (fun n =>
    (if nc_active n then map fst (nc_ifaces n) else []) ++
    flat_map (fun s => if N.eqb (sv_name s) str_marker
                       then match last (map fst (nc_ifaces n)) with Some i => [i] | None => [] end
                       else []) (nc_svcs n)) (s_nodes sc).

Definition all_rules (sc : scenario) : list rule := flat_map rc_rules (real_routers sc).

Definition net_private (n : net) : bool := is_private (fst n).

(* is the connection src -> dst allowed by the initial firewall? *)
Definition allowed (sc : scenario) (nets : gmap net (gset ip)) (src dst : ip) : bool :=
  if s_use_fw sc then
    let nl := map_to_list nets in
    (* both in the same private network *)
    existsb (fun kv => net_private (fst kv) && bool_decide (src ∈ snd kv) && bool_decide (dst ∈ snd kv)) nl
    (* private -> public *)
    || (existsb (fun kv => net_private (fst kv) && bool_decide (src ∈ snd kv)) nl &&
        existsb (fun kv => negb (net_private (fst kv)) && bool_decide (dst ∈ snd kv)) nl)
    (* self loop of a public address (added while some private host is connected to it) *)
    || (N.eqb src dst &&
        existsb (fun kv => negb (net_private (fst kv)) && bool_decide (dst ∈ snd kv)) nl &&
        existsb (fun kv => net_private (fst kv) && negb (bool_decide (snd kv = ∅))) nl)
    (* ALLOW rules of the routers *)
    || existsb (fun r => ru_allow r && in_net src (ru_src r) && in_net dst (ru_dst r)) (all_rules sc)
  else true.

Definition all_ips (nets : gmap net (gset ip)) : gset ip := ⋃ (map snd (map_to_list nets)).

Definition load_fw (sc : scenario) (nets : gmap net (gset ip)) : gmap ip (gset ip) :=
  let ips := all_ips nets in
  map_imap (fun src _ => Some (filter (fun dst => allowed sc nets src dst = true) ips)) (gset_to_gmap tt ips).

Definition load (sc : scenario) : world :=
  let nets := load_nets sc in
  let fw := load_fw sc nets in
  let dt := load_data sc in
  {| w_ip2host := load_ip2host sc; w_nets := nets; w_services := load_services sc; w_data := dt;
     w_fw := fw; w_blocks := ∅; w_data0 := dt; w_fw0 := fw |}.

(* ---- the initial view of an agent ---------------------------------------------------------- *)
Inductive start_host := SHost (i : ip) | SRandom | SAllLocal.
Record start_pos := { sp_nets : list net; sp_hosts : list ip; sp_ctrl : list start_host;
                      sp_svcs : list (ip * list svc); sp_data : list (ip * list data) }.

(* _get_all_local_ips (static addresses) *)
Definition all_local (w : world) : gset ip :=
  ⋃ (map snd (filter (fun kv => net_private (fst kv)) (map_to_list (w_nets w)))).

(* neighbouring networks: the private network itself and +-256 on its address if still private *)
Definition neighbours (n : net) : gset net :=
  if net_private n then
    {[n]} ∪ (if is_private (fst n + 256) then {[((fst n + 256)%N, snd n)]} else ∅)
          ∪ (if N.leb 256 (fst n) && is_private (fst n - 256) then {[((fst n - 256)%N, snd n)]} else ∅)
  else ∅.

(* random.choice results are an oracle: one per 'random' entry, in order *)
Fixpoint resolve_ctrl (w : world) (l : list start_host) (oracle : list ip) : gset ip :=
  match l with
  | [] => ∅
  | SHost i :: tl => {[i]} ∪ resolve_ctrl w tl oracle
  | SRandom :: tl => match oracle with
                     | o :: os => {[o]} ∪ resolve_ctrl w tl os
                     | [] => resolve_ctrl w tl []
                     end
  | SAllLocal :: tl => all_local w ∪ resolve_ctrl w tl oracle
  end.

Definition init_view (w : world) (sp : start_pos) (oracle : list ip) : view :=
  let ctrl := resolve_ctrl w (sp_ctrl sp) oracle in
  {| v_ctrl := ctrl;
     v_hosts := list_to_set (sp_hosts sp) ∪ ctrl;
     v_svcs := list_to_map (map (fun kv => (fst kv, list_to_set (snd kv))) (sp_svcs sp));
     v_data := list_to_map (map (fun kv => (fst kv, list_to_set (snd kv))) (sp_data sp));
     v_nets := list_to_set (sp_nets sp) ∪
               ⋃ (map (fun h => ⋃ (map neighbours (elements (nets_of w h)))) (elements ctrl));
     v_blocks := ∅ |}.
