"""Rendering of Python values as Coq terms for generated case files."""


def cstr(s):
    assert isinstance(s, str)
    return '"' + s.replace('"', '""') + '"'


def cbool(b):
    return "true" if b else "false"


def cz(n):
    return f"({int(n)})%Z"


def clist(items):
    return "[" + "; ".join(items) + "]"


def json_term(j):
    if j is None:
        return "JNull"
    if isinstance(j, bool):
        return f"(JBool {cbool(j)})"
    if isinstance(j, int):
        return f"(JNum {cz(j)})"
    if isinstance(j, str):
        return f"(JStr {cstr(j)})"
    if isinstance(j, list):
        return f"(JArr {clist(json_term(x) for x in j)})"
    if isinstance(j, dict):
        return "(JObj " + clist(f"({cstr(k)}, {json_term(v)})" for k, v in j.items()) + ")"
    raise TypeError(f"not representable in the JSON model: {j!r}")


def representable(j):
    try:
        json_term(j)
        return True
    except TypeError:
        return False


def pval_term(v):
    from AIDojoCoordinator.game_components import IP, Network, Service, Data, AgentInfo
    if isinstance(v, bool):
        return f"(PBool {cbool(v)})"
    if isinstance(v, IP):
        return f"(PIp {cstr(v.ip)})"
    if isinstance(v, Network):
        return f"(PNet ({cstr(v.ip)}, {cz(v.mask)}))"
    if isinstance(v, Service):
        return f"(PSvc ({cstr(v.name)}, {cstr(v.type)}, {cstr(v.version)}, {cbool(v.is_local)}))"
    if isinstance(v, Data):
        return f"(PData ({cstr(v.owner)}, {cstr(v.id)}, {cz(v.size)}, {cstr(v.type)}))"
    if isinstance(v, AgentInfo):
        return f"(PAgent ({cstr(v.name)}, {cstr(v.role)}))"
    raise TypeError(f"parameter value outside the model: {v!r}")


def action_term(a):
    ps = clist(f"(K_{k}, {pval_term(v)})" for k, v in a.parameters.items())
    return f"({a.action_type.name}, {ps})"


def view_term(v):
    def sset(xs, f):
        return "(list_to_set " + clist(f(x) for x in xs) + ")"

    def smap(m, f):
        return "(list_to_map " + clist(f"({cstr(str(k))}, {sset(vals, f)})" for k, vals in m.items()) + ")"

    ipf = lambda i: cstr(i.ip)
    netf = lambda n: f"({cstr(n.ip)}, {cz(n.mask)})"
    svcf = lambda s: f"({cstr(s.name)}, {cstr(s.type)}, {cstr(s.version)}, {cbool(s.is_local)})"
    dataf = lambda d: f"({cstr(d.owner)}, {cstr(d.id)}, {cz(d.size)}, {cstr(d.type)})"
    return ("{| v_ctrl := " + sset(v.controlled_hosts, ipf) + "; v_hosts := " + sset(v.known_hosts, ipf) +
            "; v_svcs := " + smap(v.known_services, svcf) + "; v_data := " + smap(v.known_data, dataf) +
            "; v_nets := " + sset(v.known_networks, netf) + "; v_blocks := " + smap(v.known_blocks, ipf) + " |}")
