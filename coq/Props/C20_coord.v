(* C20, coordinator clause - "same configuration, seed and messages give the same game": the game does not depend on the peer
   addresses the agents' connections happen to come from (ephemeral ports chosen by the operating system differ from run to run).
   Statement over the coordinator model Model/Coord.v: the labelled transition system commutes with every one-to-one renaming of
   the addresses - the same events, arriving from other addresses, are accepted exactly when the original ones are, lead to the
   renamed state, consume the world's draws in the same order (the world, the files and everything written to each connection
   are the same).  Which agent is which is decided by the order of the messages (the agents table keeps the order of joining and
   the reset draws follow it), never by an order or a value of the addresses.  Proofs are in Proofs/CoordRename.v. *)
From Coq Require Import ZArith NArith List Bool Lia.
From NSG Require Import Base.Prelude Model.Defender Model.Coord Model.CoordExec Proofs.CoordRename Proofs.CoordTwinsQuiescent.
Import ListNotations.

Theorem C20_peer_addresses_step :
  forall (V W G : Type) (wstep : W -> V -> G -> W * V) (wreset : W -> W) (winit : W -> role -> W * V)
         (goal : role -> V -> bool) (detect : list G -> G -> bool) (cfg : config)
         (f : addr -> addr), (forall a b, f a = f b -> a = b) ->
  forall (s : @state V W G) (l : @label G),
    exec wstep wreset winit goal detect cfg (rs f s) (rlab f l) = option_map (rs f) (exec wstep wreset winit goal detect cfg s l).
Proof. intros V W G wstep wreset winit goal detect cfg f Hf s l. exact (exec_rs wstep wreset winit goal detect cfg f Hf s l). Qed.

Theorem C20_peer_addresses :
  forall (V W G : Type) (wstep : W -> V -> G -> W * V) (wreset : W -> W) (winit : W -> role -> W * V)
         (goal : role -> V -> bool) (detect : list G -> G -> bool) (cfg : config)
         (f : addr -> addr), (forall a b, f a = f b -> a = b) ->
  forall (w : W) (ls : list (@label G)),
    execs wstep wreset winit goal detect cfg (init_state w) (map (rlab f) ls) =
    option_map (rs f) (execs wstep wreset winit goal detect cfg (init_state w) ls).
Proof. intros V W G wstep wreset winit goal detect cfg f Hf w ls. exact (execs_rs wstep wreset winit goal detect cfg f Hf ls (init_state w)). Qed.

(* what the renamed state is: the same world (the same draws were consumed), the same trajectory files, the same agents in the
   same order of joining, and the connection from address (f c) has been sent exactly what the connection from c was sent *)
Theorem C20_peer_addresses_observables :
  forall (V W G : Type) (f : addr -> addr), (forall a b, f a = f b -> a = b) ->
  forall (s : @state V W G),
    world (rs f s) = world s /\ files (rs f s) = files s /\
    map snd (agents (rs f s)) = map snd (agents s) /\ map fst (agents (rs f s)) = map f (map fst (agents s)) /\
    forall c, option_map (@c_outs V G) (alookup (f c) (conns (rs f s))) = option_map (@c_outs V G) (alookup c (conns s)).
Proof.
  intros V W G f Hf s. split; [reflexivity|]. split; [reflexivity|].
  split; [unfold rs, rl; simpl; rewrite map_map; reflexivity|].
  split; [unfold rs, rl; simpl; rewrite !map_map; reflexivity|].
  intros c. exact (outs_rs f Hf s c).
Qed.

(* ... and the renamed state is idle (no internal label enabled) exactly when the original is: nothing is held back or released because of
   the addresses *)
Theorem C20_peer_addresses_quiescent :
  forall (V W G : Type) (wstep : W -> V -> G -> W * V) (winit : W -> role -> W * V)
         (goal : role -> V -> bool) (detect : list G -> G -> bool) (cfg : config)
         (f : addr -> addr), (forall a b, f a = f b -> a = b) ->
  forall (s : @state V W G), quiescent wstep winit goal detect cfg (rs f s) = quiescent wstep winit goal detect cfg s.
Proof. intros V W G wstep winit goal detect cfg f Hf s. exact (quiescent_rs wstep winit goal detect cfg f Hf s). Qed.

(* non-vacuity: two attackers, two required players, a collective reset; the agent that joins FIRST gets the first draw at the
   join (view 5) and at the reset (view 8) - whether it is the one connected from the lower address (1) or from the higher (2) *)
Definition swap12 (a : addr) : addr := if N.eqb a 1 then 2%N else if N.eqb a 2 then 1%N else a.
Lemma swap12_inj a b : swap12 a = swap12 b -> a = b.
Proof.
  unfold swap12. destruct (N.eqb_spec a 1), (N.eqb_spec a 2), (N.eqb_spec b 1), (N.eqb_spec b 2); intros H; subst; try reflexivity; try discriminate; try congruence.
Qed.

Example C20_coord_nonvacuous :
  let cfg := {| required := 2; max_steps := fun _ => Some 1; r_step := (-1)%Z; r_succ := 100%Z; r_fail := (-10)%Z;
                allowed := fun _ => true; save_traj := false |} in
  let ex := execs x_wstep x_wreset x_winit (x_goal []) (x_detect None (0%Z, 1%positive)) cfg in
  let sess (a b : N) : list (@label xG) :=
    [LConnect a; LConnect b; LArrive a (CMsg (MJoin (Some (7%N, Some RAttacker)))); LRun (TConn a); LRun TDispatch; LRun (THandler 0);
     LArrive b (CMsg (MJoin (Some (8%N, Some RAttacker)))); LRun (TConn b); LRun TDispatch; LRun (THandler 1); LRun (THandler 0);
     LRun (TConn a); LRun (TConn b);
     LArrive a (CMsg (MReset false)); LRun (TConn a); LRun TDispatch; LRun (THandler 2);
     LArrive b (CMsg (MReset false)); LRun (TConn b); LRun TDispatch; LRun (THandler 3); LRun TReset; LRun (THandler 2); LRun (THandler 3);
     LRun (TConn a); LRun (TConn b)] in
  map (rlab swap12) (sess 1%N 2%N) = sess 2%N 1%N /\
  match ex (init_state [5%N; 6%N; 8%N; 9%N; 10%N]) (sess 1%N 2%N), ex (init_state [5%N; 6%N; 8%N; 9%N; 10%N]) (sess 2%N 1%N) with
  | Some s, Some s' =>
      s' = rs swap12 s /\ world s = [10%N] /\
      option_map (@c_outs xV xG) (alookup 1%N (conns s)) = Some [RCreated 5%N; RResetDone (8%N, 0%Z, false) None] /\
      option_map (@c_outs xV xG) (alookup 2%N (conns s')) = Some [RCreated 5%N; RResetDone (8%N, 0%Z, false) None] /\
      option_map (@c_outs xV xG) (alookup 1%N (conns s')) = Some [RCreated 6%N; RResetDone (9%N, 0%Z, false) None]
  | _, _ => False
  end.
Proof. vm_compute. repeat split; reflexivity. Qed.

Print Assumptions C20_peer_addresses_step.
Print Assumptions C20_peer_addresses.
Print Assumptions C20_peer_addresses_observables.
Print Assumptions C20_peer_addresses_quiescent.
