(* C07 - Reset is collective, voluntary and gives every agent a fresh episode
   Statements only (printed by Coq from the proof files); proofs are in coq/Proofs/Coord*.v.

*)
From Coq Require Import ZArith NArith List Bool Arith.
From NSG Require Import Base.Prelude Model.Defender Model.Coord Proofs.CoordBase Proofs.CoordInv Proofs.CoordInvConn Proofs.CoordInvDispatch Proofs.CoordInvHandler Proofs.CoordProps Proofs.CoordDirect Proofs.CoordInv2 Proofs.CoordAgentStep Proofs.CoordBarrier Proofs.CoordMeasure Proofs.CoordIsolation Proofs.CoordLimit Proofs.CoordKinds Proofs.CoordFiles.
Import ListNotations.

(* the reset task does nothing unless the game is non-empty and every agent in it has asked *)
Theorem C07_collective :
  forall (V W G : Type) (wreset : W -> W) (winit : W -> role -> W * V) (cfg : config)
         (s s' : @state V W G),
       @reset_run V W G wreset winit cfg s = @Some (@state V W G) s' ->
       match @agents V W G s with
       | [] => false
       | _ :: _ => true
       end && @all_req V G (@agents V W G s) = false ->
       @agents V W G s' = @agents V W G s /\
       @world V W G s' = @world V W G s /\
       @handlers V W G s' = @handlers V W G s /\
       @files V W G s' = @files V W G s /\ @ev_reset V W G s' = false.
Proof. exact (@reset_only_when_all_asked). Qed.

(* an agent that has not asked keeps its whole record (view, steps, status, reward, trajectory) across any run of the reset task *)
Theorem C07_voluntary :
  forall (V W G : Type) (wreset : W -> W) (winit : W -> role -> W * V) (cfg : config)
         (s s' : @state V W G) (c : addr) (a : @agent V G),
       @reset_run V W G wreset winit cfg s = @Some (@state V W G) s' ->
       @alookup (@agent V G) c (@agents V W G s) = @Some (@agent V G) a ->
       @a_req V G a = false -> @alookup (@agent V G) c (@agents V W G s') = @Some (@agent V G) a.
Proof. exact (@reset_voluntary). Qed.

(* what the reset does to each agent: fresh initial view, counters and reward zero, playing status, request cleared; trajectory stored if configured *)
Theorem C07_fresh :
  forall (V W G : Type) (winit : W -> role -> W * V) (cfg : config) (w : W)
         (done : list (addr * @agent V G)) (fl : list (N * role * @traj V G)) (x : addr * @agent V G),
       exists (w' : W) (v : V),
         winit w (@a_role V G (@snd addr (@agent V G) x)) = (w', v) /\
         @reset_one V W G winit cfg (w, done, fl) x =
         (w',
          done ++
          [(@fst addr (@agent V G) x,
            {|
              a_name := @a_name V G (@snd addr (@agent V G) x);
              a_role := @a_role V G (@snd addr (@agent V G) x);
              a_steps := 0;
              a_req := false;
              a_status := init_status (@a_role V G (@snd addr (@agent V G) x));
              a_ended := false;
              a_view := v;
              a_reward := 0;
              a_rewarded := false;
              a_obs := (v, 0%Z, false);
              a_traj := @a_traj V G (@snd addr (@agent V G) x)
            |})],
          if save_traj cfg
          then
           fl ++
           [(@a_name V G (@snd addr (@agent V G) x), @a_role V G (@snd addr (@agent V G) x),
             @a_traj V G (@snd addr (@agent V G) x))]
          else fl).
Proof. exact (@reset_one_effect). Qed.

(* RESET_DONE carries that observation, the finished trajectory iff requested, and restarts the trajectory *)
Theorem C07_done :
  forall (V W G : Type) (s : @state V W G) (id : nat) (c : addr) (want : bool) (a : @agent V G),
       @alookup (@agent V G) c (@agents V W G s) = @Some (@agent V G) a ->
       @reset_finish V W G s id c want =
       @respond V W G
         (@remove_handler V W G
            (@set_agents V W G s
               (@aupdate (@agent V G) c
                  (fun _ : @agent V G => @a_set_traj V G a (@traj_start V G (@a_view V G a)))
                  (@agents V W G s))) id) c
         (@RResetDone V G (@a_obs V G a)
            (if want then @Some (@traj V G) (@a_traj V G a) else @None (@traj V G))).
Proof. exact (@reset_done_content). Qed.

(* ACROSS LABELS: a registered reset request stays registered along every continuation until the reset task runs (or the agent leaves) *)
Theorem C07_request_stays :
  forall (V W G : Type) (wstep : W -> V -> G -> W * V) (wreset : W -> W) (winit : W -> role -> W * V)
         (goal : role -> V -> bool) (detect : list G -> G -> bool) (cfg : config) 
         (w : W) (ls0 ls : list (@label G)) (s s' : @state V W G) (c : addr) (a : @agent V G),
       @execs V W G wstep wreset winit goal detect cfg (@init_state V W G w) ls0 = @Some (@state V W G) s ->
       @execs V W G wstep wreset winit goal detect cfg s ls = @Some (@state V W G) s' ->
       @no_reset G ls ->
       @alookup (@agent V G) c (@agents V W G s) = @Some (@agent V G) a ->
       @a_req V G a = true ->
       (exists a' : @agent V G,
          @alookup (@agent V G) c (@agents V W G s') = @Some (@agent V G) a' /\ @a_req V G a' = true) \/
       @gone_along V W G wstep wreset winit goal detect cfg s ls c.
Proof. exact (@request_stays_reachable). Qed.

(* in every reachable state a registered request has its handler waiting for the reset: no request is ever left without somebody to answer RESET_DONE *)
Theorem C07_request_handler :
  forall (V W G : Type) (wstep : W -> V -> G -> W * V) (wreset : W -> W) (winit : W -> role -> W * V)
         (goal : role -> V -> bool) (detect : list G -> G -> bool) (cfg : config) 
         (w : W) (ls : list (@label G)) (s : @state V W G) (c : addr) (a : @agent V G),
       @execs V W G wstep wreset winit goal detect cfg (@init_state V W G w) ls = @Some (@state V W G) s ->
       @alookup (@agent V G) c (@agents V W G s) = @Some (@agent V G) a ->
       @a_req V G a = true ->
       exists h : @handler V G,
         @In (@handler V G) h (@handlers V W G s) /\ @h_addr V G h = c /\ @waiting_reset V G h.
Proof. exact (@request_has_handler_reachable). Qed.

(* in every reachable idle state an agent waiting for RESET_DONE coexists with an agent that has not asked (the reset barrier is never stuck on the server side) *)
Theorem C07_unmet :
  forall (V W G : Type) (wstep : W -> V -> G -> W * V) (wreset : W -> W) (winit : W -> role -> W * V)
         (goal : role -> V -> bool) (detect : list G -> G -> bool) (cfg : config) 
         (w : W) (ls : list (@label G)) (s : @state V W G) (h : @handler V G),
       @execs V W G wstep wreset winit goal detect cfg (@init_state V W G w) ls = @Some (@state V W G) s ->
       @quiescent V W G wstep winit goal detect cfg s = true ->
       @In (@handler V G) h (@handlers V W G s) ->
       match @h_pc V G h with
       | PRewards false _ _ => @some_not_ended V W G s
       | PResetDone false _ => @some_not_asked V W G s
       | PJoinStart false _ | PResetStart false _ => @ev_start V W G s = false
       | _ => True
       end.
Proof. exact (@idle_barriers_unmet). Qed.

(* only the reset task clears a request *)
Theorem C07_cleared_by_reset :
  forall (V G : Type) (goal : role -> V -> bool) (detect : list G -> G -> bool) 
         (cfg : config) (a a' : @agent V G) (l : @label G),
       @achange V G goal detect cfg a l a' ->
       @a_req V G a = true -> @a_req V G a' = false -> l = @LRun G TReset.
Proof. exact (@achange_req_cleared). Qed.


(* non-vacuity: a concrete run of the executable instance reaches a state in which a request is
   held back at a barrier (two required players, one has joined) and the model is quiescent *)
From NSG Require Import Model.CoordExec.
Example C07_nonvacuous :
  let cfg := {| required := 2; max_steps := fun _ => Some 3; r_step := (-1)%Z; r_succ := 100%Z; r_fail := (-10)%Z;
                allowed := fun _ => true; save_traj := false |} in
  let run := execs x_wstep x_wreset x_winit (x_goal []) (x_detect None (0%Z, 1%positive)) cfg (init_state [5%N; 6%N])
               [LConnect 1%N; LArrive 1%N (CMsg (MJoin (Some (7%N, Some RAttacker)))); LRun (TConn 1%N); LRun TDispatch; LRun (THandler 0)] in
  match run with
  | Some s => quiescent x_wstep x_winit (x_goal []) (x_detect None (0%Z, 1%positive)) cfg s = true /\
              length (handlers s) = 1 /\ length (agents s) = 1 /\ served s = 1
  | None => False
  end.
Proof. vm_compute. repeat split; reflexivity. Qed.

Print Assumptions C07_collective.
Print Assumptions C07_voluntary.
Print Assumptions C07_fresh.
Print Assumptions C07_done.
Print Assumptions C07_request_stays.
Print Assumptions C07_request_handler.
Print Assumptions C07_unmet.
Print Assumptions C07_cleared_by_reset.
