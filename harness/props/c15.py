"""C15: views and observations on the wire.  Differential check of Model/ViewCodec.v against the
real GameState.as_dict / as_json / from_dict / from_json, a direct monitor of the round trip,
and a monitor of the framing and content of every response of real coordinator sessions."""
import copy
import json
import os
import random
import sys

import check as CK
from coqterm import *
from props.c14 import STRS, IPS, SIZES, BAD_IPS, _impl

TRANSLATORS = ["enums", "codec", "defender", "dispatch"]
COQ_FILES = ["Props/C15.v", "Props/C15_coord.v", "Obl/CodecDescOk.v", "Obl/EnumsOk.v"]


def rand_ip(gc, rng):
    if rng.random() < 0.4:
        return gc.IP(".".join(str(rng.randrange(256)) for _ in range(4)))
    return gc.IP(rng.choice(IPS))


def gen_view(gc, rng, size):
    n = lambda: rng.randrange(0, size + 1)
    ips = lambda: {rand_ip(gc, rng) for _ in range(n())}
    nets = {gc.Network(rng.choice(IPS), rng.randrange(0, 33)) for _ in range(n())}
    svc = lambda: gc.Service(rng.choice(STRS), rng.choice(STRS + ["passive"]), rng.choice(STRS), rng.random() < 0.5)
    dat = lambda: gc.Data(rng.choice(STRS), rng.choice(STRS), rng.choice(SIZES), rng.choice(STRS))
    return gc.GameState(
        controlled_hosts=ips(), known_hosts=ips(),
        known_services={rand_ip(gc, rng): {svc() for _ in range(n())} for _ in range(n())},
        known_data={rand_ip(gc, rng): {dat() for _ in range(n())} for _ in range(n())},
        known_networks=nets,
        known_blocks={rand_ip(gc, rng): {rand_ip(gc, rng) for _ in range(n())} for _ in range(n())})


def shuffled(doc, rng):
    """the same document with every array and object written in another order"""
    if isinstance(doc, list):
        l = [shuffled(x, rng) for x in doc]
        rng.shuffle(l)
        return l
    if isinstance(doc, dict):
        items = [(k, shuffled(v, rng)) for k, v in doc.items()]
        rng.shuffle(items)
        return dict(items)
    return doc


def malformed_views(gc, rng, n):
    out = []
    for i in range(n):
        d = json.loads(gen_view(gc, rng, 3).as_json())
        kind = i % 12
        if kind == 0:
            del d[rng.choice(["known_networks", "known_hosts", "controlled_hosts", "known_services", "known_data"])]
        elif kind == 1:
            del d["known_blocks"]                      # from_dict accepts, from_json refuses
        elif kind == 2:
            d["known_services"][rng.choice(BAD_IPS)] = []
        elif kind == 3:
            d["known_hosts"].append({"ip": rng.choice(BAD_IPS)})
        elif kind == 4:
            d["known_services"]["1.1.1.1"] = [rng.choice([{"name": "n", "type": "t", "version": "v"}, {"name": "n"}, {}])]
        elif kind == 5:
            d["known_data"]["1.1.1.1"] = [rng.choice([{"owner": "o", "id": "i"}, {"owner": "o", "id": "i", "size": 5},
                                                      {"owner": "o", "id": "i", "type": "t"}, {"owner": "o"}, {"id": "i"}])]
        elif kind == 6:
            d["known_blocks"]["1.1.1.1"] = rng.choice([["2.2.2.2"], [{"ip": "2.2.2.2"}], [{"ip": "bad"}], [{}]])
        elif kind == 7:
            d["known_networks"].append(rng.choice([{"ip": "1.1.1.0"}, {"mask": 3}, {"ip": "1.1.1.0", "mask": 8, "extra": 1}]))
        elif kind == 8:
            d["known_hosts"].append({"ip": "5.5.5.5", "extra": "ignored"})
        elif kind == 9:
            d = rng.choice([[], "x", 3, None])
        elif kind == 10:
            d["known_data"] = rng.choice([[], "x", None])
        elif kind == 11:
            d["controlled_hosts"] = rng.choice([{"ip": "1.1.1.1"}, "1.1.1.1", None])
        out.append(d)
    return out


def session_monitor(ctx, gc, rng, n_sessions):
    """C15_frame on the implementation: every response is one JSON document followed by the
    end-of-message marker, and the view inside decodes to the view the coordinator holds."""
    sys.path[:0] = [CK.HARNESS]
    import nsgenv
    responses = 0
    for s in range(n_sessions):
        cfg = nsgenv.base_config(scenario=rng.choice(["scenario1_small", "scenario1"]))
        cfg["coordinator"]["agents"]["Attacker"]["max_steps"] = 12
        d = nsgenv.start(cfg)
        try:
            a = ("10.9.0.1", 1000 + s)
            d.connect(a)
            d.settle()
            script = [nsgenv.join("x")]
            src = "192.168.2.2"
            nets = [("192.168.1.0", 24), ("192.168.2.0", 24), ("192.168.3.0", 24)]
            for _ in range(14):
                r = rng.random()
                st = d.g._agent_states.get(a)
                known = sorted(str(h) for h in st.known_hosts) if st else [src]
                ctrl = sorted(str(h) for h in st.controlled_hosts) if st else [src]
                tgt = rng.choice(known)
                if r < 0.25:
                    n = rng.choice(nets)
                    script.append(nsgenv.msg("ScanNetwork", source_host=nsgenv.ip(rng.choice(ctrl)), target_network={"ip": n[0], "mask": n[1]}))
                elif r < 0.5:
                    script.append(nsgenv.msg("FindServices", source_host=nsgenv.ip(rng.choice(ctrl)), target_host=nsgenv.ip(tgt)))
                elif r < 0.65 and st and st.known_services:
                    h = rng.choice(sorted(st.known_services, key=str))
                    sv = rng.choice(sorted(st.known_services[h]))
                    script.append(nsgenv.msg("ExploitService", source_host=nsgenv.ip(rng.choice(ctrl)), target_host=nsgenv.ip(str(h)),
                                             target_service={"name": sv.name, "type": sv.type, "version": sv.version, "is_local": sv.is_local}))
                elif r < 0.8:
                    script.append(nsgenv.msg("FindData", source_host=nsgenv.ip(rng.choice(ctrl)), target_host=nsgenv.ip(rng.choice(ctrl))))
                elif r < 0.9:
                    script.append(nsgenv.msg("BlockIP", source_host=nsgenv.ip(rng.choice(ctrl)), target_host=nsgenv.ip(rng.choice(ctrl)), blocked_host=nsgenv.ip(tgt)))
                elif r < 0.95:
                    script.append("not json")
                else:
                    script.append(nsgenv.msg("ResetGame", request_trajectory=True))
                m = script[-1]
                # send the message built in this iteration (the first one is the join)
                for mm in ([script[0], m] if len(script) == 2 else [m]):
                    d.send(a, mm)
                    d.settle()
                    for raw in d.new_output(a):
                        responses += 1
                        problem = None
                        if not raw.endswith(b"EOF"):
                            problem = "response does not end with the end-of-message marker"
                        else:
                            try:
                                doc = json.loads(raw[:-3].decode())
                            except Exception as e:
                                doc, problem = None, f"response body is not one JSON document: {e}"
                            if doc is not None and "observation" in doc:
                                held = d.g._agent_states.get(a)
                                try:
                                    got = gc.GameState.from_dict(doc["observation"]["state"])
                                    got2 = gc.GameState.from_json(json.dumps(doc["observation"]["state"]))
                                    import worldlib as _WL
                                    # compared field by field (worldlib.impl_view), not with the implementation's GameState.__eq__
                                    if held is not None and (_WL.impl_view(got) != _WL.impl_view(held) or _WL.impl_view(got2) != _WL.impl_view(held)
                                                             or got != held or got2 != held):
                                        problem = "the view in the response does not decode to the view the coordinator holds"
                                except Exception as e:
                                    problem = f"the view in the response cannot be decoded: {type(e).__name__}: {e}"
                        if problem:
                            ctx.violations.append({"key": "response framing/content", "what": problem,
                                                   "replay": {"kind": "session", "script": script, "raw": raw.decode(errors="replace")[:2000]}})
            if d.task_errors:
                ctx.violations.append({"key": "coordinator task died", "what": f"a coordinator task raised: {d.task_errors[:2]}",
                                       "replay": {"kind": "session", "script": script}})
        finally:
            d.close()
    return responses


def correspondence(ctx):
    # multi-agent sessions on the real coordinator (joins, actions, collective resets, faults): every response - CREATED,
    # OK, FORBIDDEN, RESET_DONE - must carry the view the coordinator holds for THAT agent (monitor tagged C15 in coordcommon)
    from props import coordcommon as CC
    CC.run_sessions(ctx, "C15", 86 if ctx.tier == "thorough" else 54,
                    lambda r: dict(n_events=r.choice([40, 70]), burst=0.2, fault=0.03, bad=0.03, resets=0.3),
                    lambda r: dict(required=r.choice([2, 2, 3]), max_steps=r.choice([1, 2, 3])))
    sess_cov = {k: ctx.coverage.get(k) for k in ("sessions", "labels_followed", "response_and_barrier_statistics")}
    gc = _impl()
    rng = random.Random(ctx.seed)
    thorough = ctx.tier == "thorough"
    cases = []
    samples = []
    sizes = {}
    nviews = 3000 if thorough else 900
    for i in range(nviews):
        v = gen_view(gc, rng, rng.choice([0, 1, 2, 3, 5]))
        tot = len(v.controlled_hosts) + len(v.known_hosts) + len(v.known_networks) + sum(map(len, v.known_services.values())) + \
            sum(map(len, v.known_data.values())) + sum(map(len, v.known_blocks.values()))
        sizes[min(tot // 5 * 5, 40)] = sizes.get(min(tot // 5 * 5, 40), 0) + 1
        # monitor: round trip through dict and JSON, also from a re-ordered document
        try:
            d = v.as_dict
            txt = v.as_json()
            b1 = gc.GameState.from_dict(d)
            b2 = gc.GameState.from_json(txt)
            b3 = gc.GameState.from_dict(shuffled(json.loads(txt), rng))
            ok = (b1 == v and b2 == v and b3 == v)
            why = None if ok else "decoded view differs"
        except Exception as e:
            ok, why = False, f"{type(e).__name__}: {e}"
        if not ok:
            ctx.violations.append({"key": "view roundtrip", "what": f"decoding the encoding of a view does not give an equal view ({why})",
                                   "replay": {"kind": "view", "view": json.loads(json.dumps(v.as_dict))}})
            continue
        j = json.loads(txt)
        cases.append(("venc", f"check_venc {view_term(v)} {json_term(j)}", txt))
        cases.append(("vdec", f"check_vdec {cbool(i % 2 == 0)} {json_term(shuffled(j, rng))} (Some {view_term(v)})", txt))
        if len(samples) < 2 and v.known_blocks and v.known_data:
            samples.append(json.loads(txt))
    # networks that differ only in their host bits (or are different texts of mask 0) are DIFFERENT elements: views holding one or
    # the other are unequal, and a document listing both decodes to a view with both
    pairs = [(("192.168.1.0", 24), ("192.168.1.77", 24)), (("192.168.1.0", 24), ("192.168.1.255", 24)), (("0.0.0.0", 0), ("10.0.0.0", 0)),
             (("10.1.2.3", 8), ("10.0.0.0", 8)), (("172.16.0.1", 32), ("172.16.0.1", 31)), (("192.168.1.4", 30), ("192.168.1.7", 30))]
    for a, b in pairs:
        base = dict(controlled_hosts=set(), known_hosts=set(), known_services={}, known_data={}, known_blocks={})
        v1 = gc.GameState(known_networks={gc.Network(*a)}, **base)
        v2 = gc.GameState(known_networks={gc.Network(*b)}, **base)
        both = {gc.Network(*a), gc.Network(*b)}
        if v1 == v2 or gc.Network(*a) == gc.Network(*b) or len(both) != 2:
            ctx.violations.append({"key": "views with different elements compare equal",
                                   "what": f"a view whose only network is {a[0]}/{a[1]} and one whose only network is {b[0]}/{b[1]} compare {'equal' if v1 == v2 else 'unequal'}; a set of the two networks has {len(both)} element(s)",
                                   "replay": {"kind": "view", "view": json.loads(json.dumps(v1.as_dict))}})
        doc = json.loads(v1.as_json())
        doc["known_networks"] = [{"ip": a[0], "mask": a[1]}, {"ip": b[0], "mask": b[1]}]
        for use_json in (False, True):
            try:
                got = gc.GameState.from_json(json.dumps(doc)) if use_json else gc.GameState.from_dict(doc)
                cases.append(("vmal", f"check_vdec {cbool(use_json)} {json_term(doc)} (Some {view_term(got)})", json.dumps(doc)))
            except Exception:
                cases.append(("vmal", f"check_vdec {cbool(use_json)} {json_term(doc)} None", json.dumps(doc)))
    refused = accepted = 0
    for i, d in enumerate(malformed_views(gc, rng, 1800 if thorough else 600)):
        use_json = i % 2 == 0
        try:
            got = gc.GameState.from_json(json.dumps(d)) if use_json else gc.GameState.from_dict(d)
            exp = f"(Some {view_term(got)})"
            accepted += 1
        except Exception:
            exp = "None"
            refused += 1
        if representable(d):
            cases.append(("vmal", f"check_vdec {cbool(use_json)} {json_term(d)} {exp}", json.dumps(d)))
    responses = session_monitor(ctx, gc, rng, 12 if thorough else 4)

    casedir = CK.fresh_casedir(ctx)
    shard = 150
    paths, shards = [], []
    for si in range(0, len(cases), shard):
        chunk = cases[si:si + shard]
        body = ["From stdpp Require Import gmap strings.",
                "From NSG Require Import Base.Prelude Model.Json Model.Codec Model.ViewCodec Model.CodecCases.",
                "Open Scope string_scope.",
                "Definition cases : list bool := [",
                ";\n".join(c[1] for c in chunk) + ";",
                "false].   (* canary: must be reported *)",
                "Eval vm_compute in (false_indices 0 cases)."]
        p = os.path.join(casedir, f"c15_{si // shard}.v")
        with open(p, "w") as f:
            f.write("\n".join(body))
        paths.append(p)
        shards.append((p, chunk))
    res = CK.run_case_files(ctx, paths)
    disagreements = 0
    for p, chunk in shards:
        ok, out = res[p]
        idx = CK.coq_eval_list(out) if ok else None
        if idx is None:
            ctx.stage_errors.append((f"coqc {os.path.basename(p)}", out[-800:]))
            continue
        idx = [int(x.replace("%nat", "")) for x in idx]
        if len(chunk) not in idx:
            ctx.stage_errors.append((f"canary {os.path.basename(p)}", "deliberately false case not reported"))
        for i in idx:
            if i < len(chunk):
                disagreements += 1
                ctx.broken.append(f"correspondence Model/ViewCodec.v vs game_components.py ({chunk[i][0]}): {chunk[i][2][:300]}")
    ctx.coverage = {k: v for k, v in ctx.coverage.items() if k in ('coqchk',)}
    ctx.coverage['coordinator_sessions'] = sess_cov
    ctx.coverage.update({
        "evaluations": len(cases) + responses,
        "distinct_nontrivial": len({c[1] for c in cases}),
        "rule": "random views over pools of boundary/random IPv4 addresses, masks 0..32, strings with separators/unicode/empty, data sizes incl. negative and large, blocks; each view: implementation encoding decoded by the model, model decoding of a re-ordered document (alternating dict/JSON decoder), direct round-trip monitor; malformed stream of 12 kinds; plus every response of real coordinator sessions checked for framing and content; distinct = distinct Coq case terms",
        "view_size_histogram": sizes, "malformed_refused": refused, "malformed_accepted": accepted,
        "session_responses_checked": responses,
        "disagreements_checked": len(cases), "model_impl_disagreements": disagreements,
        "samples": samples,
    })
    ctx.assumptions += [
        "json.dumps/json.loads are library code, exercised for real in every case",
        "addresses are IPv4 dotted quads (IPv6 texts outside the model)",
        "C15_frame (every output is dumps(enc_resp) + EOF with the stored view) is a monitor over real sessions here; the model-level statement belongs to the coordinator model",
    ]


def replay(ctx, payload):
    if payload.get("kind") in ("coordinator_session", "coordinator_session_reuse_twin"):
        from props import coordcommon as CC
        return CC.replay_session(ctx, "C15", payload)
    gc = _impl()
    if payload.get("kind") == "view":
        d = payload["view"]
        v = gc.GameState.from_dict(d)
        try:
            ok = gc.GameState.from_dict(v.as_dict) == v and gc.GameState.from_json(v.as_json()) == v
        except Exception as e:
            print("decoder raised:", type(e).__name__, e)
            ok = False
        print("round trip equal:", ok)
        if not ok:
            print("VIOLATION property=C15 replay=(this file)")
            return 1
        return 0
    print(json.dumps(payload, indent=1)[:3000])
    return 0
