(* C05, rewards are the configured numbers and their sums - nothing else: scaling the three configured rewards (step, success,
   fail) by any factor k scales every reward the coordinator stores, sends or records by k and changes nothing else - the same
   labels are enabled, the same statuses, views, end flags, barriers, world draws.  Statement over the coordinator model
   Model/Coord.v; proofs in Proofs/CoordScale.v.  (It is also what makes following sessions with fractional rewards - binary
   fractions - at a scale at which they are whole numbers exact.) *)
From Coq Require Import ZArith NArith List Bool.
From NSG Require Import Base.Prelude Model.Defender Model.Coord Model.CoordExec Proofs.CoordScale Proofs.CoordTwinsQuiescent.
Import ListNotations.

Theorem C05_rewards_scale_step :
  forall (V W G : Type) (wstep : W -> V -> G -> W * V) (wreset : W -> W) (winit : W -> role -> W * V)
         (goal : role -> V -> bool) (detect : list G -> G -> bool) (cfg : config) (k : Z)
         (s : @state V W G) (l : @label G),
    exec wstep wreset winit goal detect (kcfg cfg k) (ks k s) l = option_map (ks k) (exec wstep wreset winit goal detect cfg s l).
Proof. intros V W G wstep wreset winit goal detect cfg k s l. exact (exec_ks wstep wreset winit goal detect cfg k s l). Qed.

Theorem C05_rewards_scale :
  forall (V W G : Type) (wstep : W -> V -> G -> W * V) (wreset : W -> W) (winit : W -> role -> W * V)
         (goal : role -> V -> bool) (detect : list G -> G -> bool) (cfg : config) (k : Z)
         (w : W) (ls : list (@label G)),
    execs wstep wreset winit goal detect (kcfg cfg k) (init_state w) ls =
    option_map (ks k) (execs wstep wreset winit goal detect cfg (init_state w) ls).
Proof. intros V W G wstep wreset winit goal detect cfg k w ls. exact (execs_ks wstep wreset winit goal detect cfg k ls (init_state w)). Qed.

(* what the scaled state is: everything but the rewards is as before; every reward is k times what it was *)
Theorem C05_rewards_scale_observables :
  forall (V W G : Type) (k : Z) (s : @state V W G),
    world (ks k s) = world s /\ handlers (ks k s) = handlers s /\ aq (ks k s) = aq s /\ served (ks k s) = served s /\
    (ev_start (ks k s), ev_end (ks k s), ev_reset (ks k s)) = (ev_start s, ev_end s, ev_reset s) /\
    (forall c, alookup c (agents (ks k s)) = option_map (kagent k) (alookup c (agents s))) /\
    (forall c, alookup c (conns (ks k s)) = option_map (kconn k) (alookup c (conns s))) /\
    (forall a : @agent V G, a_reward (kagent k a) = (k * a_reward a)%Z /\ a_view (kagent k a) = a_view a /\
                            a_status (kagent k a) = a_status a /\ a_ended (kagent k a) = a_ended a /\ a_steps (kagent k a) = a_steps a /\
                            t_rewards (a_traj (kagent k a)) = map (Z.mul k) (t_rewards (a_traj a)) /\
                            t_actions (a_traj (kagent k a)) = t_actions (a_traj a) /\ t_states (a_traj (kagent k a)) = t_states (a_traj a)) /\
    (forall cn : @conn V G, c_outs (kconn k cn) = map (kresp k) (c_outs cn) /\ c_state (kconn k cn) = c_state cn).
Proof.
  intros V W G k s. repeat split; try reflexivity.
  - intros c. exact (alookup_mv (kagent k) c (agents s)).
  - intros c. exact (alookup_mv (kconn k) c (conns s)).
Qed.

(* ... and the scaled state is idle exactly when the original is *)
Theorem C05_rewards_scale_quiescent :
  forall (V W G : Type) (wstep : W -> V -> G -> W * V) (winit : W -> role -> W * V)
         (goal : role -> V -> bool) (detect : list G -> G -> bool) (cfg : config) (k : Z) (s : @state V W G),
    quiescent wstep winit goal detect (kcfg cfg k) (ks k s) = quiescent wstep winit goal detect cfg s.
Proof. intros V W G wstep winit goal detect cfg k s. exact (quiescent_ks wstep winit goal detect cfg k s). Qed.

(* non-vacuity: an attacker with a step limit of 1 plays once and times out - rewards (-1, +100, -10) give a final reward of -11;
   the same labels with rewards (-1/16, ...) written as sixteenths, i.e. the scaled configuration k = 16, give -176 = 16 * (-11) *)
Example C05_scale_nonvacuous :
  let cfg := {| required := 1; max_steps := fun _ => Some 1; r_step := (-1)%Z; r_succ := 100%Z; r_fail := (-10)%Z;
                allowed := fun _ => true; save_traj := false |} in
  let ex c := execs x_wstep x_wreset x_winit (x_goal []) (x_detect None (0%Z, 1%positive)) c in
  let g := MGame (ScanNetwork, 3%N) true in
  let ls := [LConnect 1%N; LArrive 1%N (CMsg (MJoin (Some (7%N, Some RAttacker)))); LRun (TConn 1%N); LRun TDispatch; LRun (THandler 0);
             LRun (TConn 1%N); LArrive 1%N (CMsg g); LRun (TConn 1%N); LRun TDispatch; LRun (THandler 1); LRun TRewards;
             LRun (THandler 1); LRun (TConn 1%N)] in
  match ex cfg (init_state [5%N; 6%N; 8%N]) ls, ex (kcfg cfg 16) (init_state [5%N; 6%N; 8%N]) ls with
  | Some s, Some s' =>
      s' = ks 16 s /\
      option_map (@c_outs xV xG) (alookup 1%N (conns s)) = Some [RCreated 5%N; ROk 6%N (-11)%Z true (Some STimeout)] /\
      option_map (@c_outs xV xG) (alookup 1%N (conns s')) = Some [RCreated 5%N; ROk 6%N (-176)%Z true (Some STimeout)]
  | _, _ => False
  end.
Proof. vm_compute. repeat split; reflexivity. Qed.

Print Assumptions C05_rewards_scale_step.
Print Assumptions C05_rewards_scale.
Print Assumptions C05_rewards_scale_observables.
Print Assumptions C05_rewards_scale_quiescent.
