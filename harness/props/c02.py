"""C02: world actions have no effect unless their preconditions hold."""
import json
import check as CK
from props import worldcommon as WC

TRANSLATORS = []
COQ_FILES = ["Props/C02.v"]
ASSUME = ["addresses are IPv4; ScanNetwork masks are 0..32 (the coordinator validates the network before calling the world)",
          "the Python reference (harness/worldlib.py ref_pre/ref_step/ref_load) is the property statement used as monitor; it reads the scenario definition independently of the implementation's tables",
          "the cyst stub package stands in for the external cyst library",
          "hand-written model Model/World.v, Model/Load.v tied to NSEGameCoordinator.py by differential execution only"]


def correspondence(ctx):
    th = ctx.tier == "thorough"
    WC.world_suite(ctx, "C02", tags={"nopre"}, walks_per_spec=4 if th else 1, n_generated=30 if th else 8,
                   n_steps=150 if th else 70, perturb=0.3, resets=25, n_agents=(1, 3), shared_every=3)
    ctx.assumptions += ASSUME


def replay(ctx, payload):
    print(json.dumps(payload, indent=1)[:6000])
    return 0
