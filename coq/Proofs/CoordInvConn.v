(* Preservation of the structural invariant by the external labels and by the connection handler. *)
From Coq Require Import ZArith NArith List Bool Arith Lia.
From NSG Require Import Model.Coord Proofs.CoordBase Proofs.CoordInv.
Import ListNotations.

Section InvConn.
  Context {V W G : Type}.
  Variable wstep : W -> V -> G -> W * V.
  Variable wreset : W -> W.
  Variable winit : W -> role -> W * V.
  Variable goal : role -> V -> bool.
  Variable detect : list G -> G -> bool.
  Variable cfg : config.

  Notation state := (@state V W G).
  Notation conn := (@conn V G).
  Notation Inv := (@Inv V W G).
  Notation conn_run := (@conn_run V W G cfg).

  Lemma nq_aupdate_eq c f (cs : list (addr * conn)) cn :
    alookup c cs = Some cn -> nq c (aupdate c f cs) = length (c_queue (f cn)).
  Proof. intros H. unfold nq. rewrite alookup_aupdate_eq, H. reflexivity. Qed.

  Lemma nactive_aupdate c f (cs : list (addr * conn)) cn :
    NoDup (map fst cs) -> alookup c cs = Some cn ->
    nactive (aupdate c f cs) + (if active (c_state cn) then 1 else 0) = nactive cs + (if active (c_state (f cn)) then 1 else 0).
  Proof.
    unfold nactive. induction cs as [|[k v] tl IH]; simpl; [discriminate|].
    intros Hnd. inversion Hnd as [|? ? Hnotin Hnd']; subst.
    destruct (N.eqb c k) eqn:E.
    - intros [= ->]. simpl. destruct (active (c_state cn)), (active (c_state (f cn))); simpl; lia.
    - intros Hl. simpl. specialize (IH Hnd' Hl). destruct (active (c_state v)); simpl; lia.
  Qed.

  (* a step that rewrites the connection record of c, appends entries of c to the action queue and
     leaves handlers and agents alone *)
  Lemma inv_conn_step (s : state) c cn cn' extra sv :
    Inv s -> alookup c (conns s) = Some cn ->
    (forall x, In x extra -> fst x = c) ->
    sv + (if active (c_state cn) then 1 else 0) = served s + (if active (c_state cn') then 1 else 0) ->
    (let t := naq c (aq s) + length extra + nh c (handlers s) + length (c_queue cn') in
     match c_state cn' with
     | CNew | CReading => t = 0
     | CAwaiting => t = 1
     | CClosed => c_queue cn' = [] /\ (forall m, In (c, m) (aq s ++ extra) -> m = MQuit) /\
                  (forall h, In h (handlers s) -> h_addr h = c -> spawned_msg h = Some MQuit)
     end) ->
    Inv (set_served (set_aq (set_conns s (aupdate c (fun _ => cn') (conns s))) (aq s ++ extra)) sv).
  Proof.
    intros Hi Hl Hex Hsv Hat.
    apply (inv_local s _ c Hi); simpl.
    - intros c' Hne. apply alookup_aupdate_ne. congruence.
    - rewrite map_fst_aupdate. apply (I_conns s Hi).
    - intros c' Hne. split; [|reflexivity]. rewrite naq_app.
      rewrite (naq_all_other c c' extra Hex Hne). lia.
    - intros c' m Hin. apply in_app_or in Hin as [Hin|Hin]; [right; exact Hin | left; apply (Hex _ Hin)].
    - intros h' Hin. right. exists h'. auto.
    - apply (I_ids s Hi).
    - pose proof (nactive_aupdate c (fun _ => cn') (conns s) cn (I_conns s Hi) Hl) as Hn.
      rewrite (I_served s Hi) in Hsv. lia.
    - apply (I_agents s Hi).
    - apply (I_parked s Hi).
    - intros cn0 Hl0. rewrite alookup_aupdate_eq, Hl in Hl0. injection Hl0 as <-.
      unfold tok. simpl. rewrite naq_app, (nq_aupdate_eq c _ _ cn Hl).
      rewrite (naq_all_same c extra Hex).
      cbv zeta in Hat. destruct (c_state cn'); try lia. exact Hat.
    - intros _. rewrite alookup_aupdate_eq, Hl. discriminate.
    - intros h Hin _. apply (I_nogarbage s Hi), Hin.
  Qed.

  Lemma inv_conn_flags (s : state) c (f : conn -> conn) :
    (forall x, c_state (f x) = c_state x /\ c_queue (f x) = c_queue x) ->
    Inv s -> Inv (set_conns s (aupdate c f (conns s))).
  Proof.
    intros Hf Hi. destruct (alookup c (conns s)) as [cn|] eqn:Hl.
    2:{ rewrite (aupdate_none c f _ Hl). destruct s; exact Hi. }
    pose proof (inv_conn_step s c cn (f cn) [] (served s) Hi Hl) as H.
    destruct (Hf cn) as [Hs Hq].
    assert (E : aupdate c f (conns s) = aupdate c (fun _ => f cn) (conns s)).
    { clear - Hl. induction (conns s) as [|[k v] tl IH]; simpl in *; [reflexivity|].
      destruct (N.eqb c k); [injection Hl as ->; reflexivity | rewrite IH by exact Hl; reflexivity]. }
    rewrite E.
    assert (Hgoal : Inv (set_served (set_aq (set_conns s (aupdate c (fun _ => f cn) (conns s))) (aq s ++ [])) (served s))).
    { apply H.
      - intros x [].
      - rewrite Hs. reflexivity.
      - rewrite Hs, Hq. simpl. pose proof (I_tok s Hi c cn Hl) as Ht. unfold tok, nq in Ht. rewrite Hl in Ht.
        destruct (c_state cn); try lia. rewrite app_nil_r. exact Ht. }
    rewrite app_nil_r in Hgoal. destruct s; exact Hgoal.
  Qed.
End InvConn.

Section InvConnRun.
  Context {V W G : Type}.
  Variable cfg : config.
  Notation state := (@state V W G).
  Notation conn := (@conn V G).
  Notation Inv := (@Inv V W G).
  Notation conn_run := (@conn_run V W G cfg).

  Lemma nactive_pos c (cs : list (addr * conn)) cn : alookup c cs = Some cn -> active (c_state cn) = true -> 1 <= nactive cs.
  Proof.
    unfold nactive. induction cs as [|[k v] tl IH]; simpl; [discriminate|].
    destruct (N.eqb c k); [intros [= ->] Ha; rewrite Ha; simpl; lia|].
    intros Hl Ha. specialize (IH Hl Ha). destruct (active (c_state v)); simpl; lia.
  Qed.

  Lemma tok0 (s : state) c : tok s c = 0 -> naq c (aq s) = 0 /\ nh c (handlers s) = 0 /\ nq c (conns s) = 0.
  Proof. unfold tok. lia. Qed.

  (* the agent leaves: QuitGame is forwarded on its behalf, the slot is released *)
  Lemma inv_leave (s : state) c cn :
    Inv s -> alookup c (conns s) = Some cn -> active (c_state cn) = true -> tok s c = 0 -> Inv (leave s c).
  Proof.
    intros Hi Hl Ha Ht. destruct (tok0 s c Ht) as (Hq & Hh & Hn).
    unfold leave, cleanup. cbn [conns served set_aq].
    rewrite (aupdate_at c _ _ cn Hl).
    assert (Hstep := inv_conn_step s c cn (c_set_queue (c_set_state cn CClosed) []) [(c, MQuit)] (served s - 1) Hi Hl).
    eapply inv_ext; [| | | | | | apply Hstep]; try reflexivity.
    - intros x [<-|[]]. reflexivity.
    - rewrite Ha. simpl. pose proof (nactive_pos c _ cn Hl Ha). rewrite (I_served s Hi). lia.
    - simpl. split; [reflexivity|]. split.
      + intros m Hin. apply in_app_or in Hin as [Hin|[Heq|[]]]; [exfalso; eapply naq0_notin; eauto | congruence].
      + intros h Hin Hadr. exfalso. eapply nh0_notin; eauto.
  Qed.

  Lemma inv_conn_read (s : state) c cn :
    Inv s -> alookup c (conns s) = Some cn -> c_state cn = CReading -> Inv (conn_read s c cn).
  Proof.
    intros Hi Hl Hst. pose proof (I_tok s Hi c cn Hl) as Ht. rewrite Hst in Ht.
    destruct (tok0 s c Ht) as (Hq & Hh & Hn).
    assert (Hact : active (c_state cn) = true) by (rewrite Hst; reflexivity).
    unfold conn_read. destruct (c_rerr cn) eqn:Hre.
    { eapply inv_leave; eauto. }
    destruct (c_inbox cn) as [[m|]|].
    - (* a message: forward it and wait for the response *)
      set (cn' := {| c_state := CAwaiting; c_inbox := None; c_eof := c_eof cn; c_rerr := c_rerr cn; c_wfail := c_wfail cn;
                     c_queue := c_queue cn; c_reqs := S (c_reqs cn); c_outs := c_outs cn |}).
      assert (Hstep := inv_conn_step s c cn cn' [(c, m)] (served s) Hi Hl).
      eapply inv_ext; [| | | | | | apply Hstep]; try reflexivity; try (subst cn'; simpl; rewrite ?Hre; reflexivity).
      + intros x [<-|[]]. reflexivity.
      + rewrite Hst. reflexivity.
      + simpl. unfold nq in Hn. rewrite Hl in Hn. lia.
    - (* undecodable bytes *)
      assert (Hi' : Inv (set_conns s (aupdate c (fun x => c_set_inbox x None) (conns s)))).
      { apply inv_conn_flags; [|exact Hi]. intros x. split; reflexivity. }
      eapply (inv_leave _ c (c_set_inbox cn None) Hi').
      + simpl. rewrite alookup_aupdate_eq, Hl. reflexivity.
      + exact Hact.
      + unfold tok in *. simpl. unfold nq in *. rewrite alookup_aupdate_eq, Hl. simpl. rewrite Hl in Ht. exact Ht.
    - destruct (c_eof cn).
      + eapply inv_leave; eauto.
      + rewrite (aupdate_at c _ _ cn Hl).
        assert (E : c_set_state cn CReading = cn) by (destruct cn; simpl in *; subst; reflexivity).
        rewrite E.
        assert (Hgoal : Inv (set_served (set_aq (set_conns s (aupdate c (fun _ => cn) (conns s))) (aq s ++ [])) (served s))).
        { apply (inv_conn_step s c cn cn [] (served s) Hi Hl).
          - intros x [].
          - reflexivity.
          - rewrite Hst. simpl. unfold nq in Hn. rewrite Hl in Hn. lia. }
        rewrite app_nil_r in Hgoal. destruct s; exact Hgoal.
  Qed.

  Theorem inv_conn_run (s s' : state) c : Inv s -> conn_run s c = Some s' -> Inv s'.
  Proof.
    intros Hi. unfold conn_run. destruct (alookup c (conns s)) as [cn|] eqn:Hl; [|discriminate].
    destruct (negb (conn_runnable cn)); [discriminate|].
    pose proof (I_tok s Hi c cn Hl) as Ht.
    destruct (c_state cn) eqn:Hst.
    - (* first run: admission *)
      destruct (tok0 s c Ht) as (Hq & Hh & Hn).
      destruct (Nat.leb (required cfg) (served s)).
      + intros [= <-]. rewrite (aupdate_at c _ _ cn Hl).
        assert (Hgoal : Inv (set_served (set_aq (set_conns s (aupdate c (fun _ => c_set_state cn CClosed) (conns s))) (aq s ++ [])) (served s))).
        { apply (inv_conn_step s c cn _ [] (served s) Hi Hl).
          - intros x [].
          - rewrite Hst. reflexivity.
          - simpl. unfold nq in Hn. rewrite Hl in Hn. split; [destruct (c_queue cn); [reflexivity|discriminate]|].
            split; [intros m Hin; rewrite app_nil_r in Hin; exfalso; eapply naq0_notin; eauto|].
            intros h Hin Ha. exfalso. eapply nh0_notin; eauto. }
        rewrite app_nil_r in Hgoal. destruct s; exact Hgoal.
      + intros [= <-].
        set (cn' := c_set_state cn CReading).
        assert (Hi' : Inv (set_served (set_conns s (aupdate c (fun _ => cn') (conns s))) (S (served s)))).
        { assert (Hgoal : Inv (set_served (set_aq (set_conns s (aupdate c (fun _ => cn') (conns s))) (aq s ++ [])) (S (served s)))).
          { apply (inv_conn_step s c cn cn' [] (S (served s)) Hi Hl).
            - intros x [].
            - rewrite Hst. simpl. lia.
            - simpl. unfold nq in Hn. rewrite Hl in Hn. lia. }
          rewrite app_nil_r in Hgoal. destruct s; exact Hgoal. }
        apply (inv_conn_read _ c cn' Hi').
        * simpl. rewrite alookup_aupdate_eq, Hl. reflexivity.
        * reflexivity.
    - intros [= <-]. apply inv_conn_read; assumption.
    - (* a response is available *)
      destruct (c_queue cn) as [|[r|] q'] eqn:Hq; [discriminate| |].
      + assert (Hcnt : naq c (aq s) = 0 /\ nh c (handlers s) = 0 /\ q' = []).
        { unfold tok, nq in Ht. rewrite Hl, Hq in Ht. simpl in Ht. destruct q'; [repeat split; try lia; reflexivity | simpl in Ht; lia]. }
        destruct Hcnt as (Hna & Hnh & ->).
        assert (Hact : active (c_state cn) = true) by (rewrite Hst; reflexivity).
        pose proof (nactive_pos c _ cn Hl Hact) as Hpos.
        destruct (c_wfail cn) eqn:Hwf; intros [= <-].
        * (* the write fails: the agent leaves *)
          unfold leave, cleanup.
          assert (P1 : forall x, In x [(c, @MQuit G)] -> fst x = c) by (intros x [<-|[]]; reflexivity).
          assert (P2 : served s - 1 + (if active (c_state cn) then 1 else 0) =
                       served s + (if active (c_state (c_set_queue (c_set_state (c_set_queue cn []) CClosed) [])) then 1 else 0)).
          { rewrite Hst. simpl. rewrite (I_served s Hi). lia. }
          pose proof (inv_conn_step s c cn (c_set_queue (c_set_state (c_set_queue cn []) CClosed) []) [(c, MQuit)] (served s - 1) Hi Hl P1 P2) as Hres.
          cbv zeta in Hres. simpl in Hres.
          eapply inv_ext; [| | | | | | apply Hres]; try reflexivity.
          { cbn [conns set_served set_conns set_aq]. rewrite aupdate_aupdate.
            apply (aupdate_at c (fun x => c_set_queue (c_set_state (c_set_queue x []) CClosed) []) _ cn Hl). }
          split; [reflexivity|]. split.
          -- intros m Hin. apply in_app_or in Hin as [Hin|[Heq|[]]]; [exfalso; eapply naq0_notin; eauto | congruence].
          -- intros h Hin Hadr. exfalso. eapply nh0_notin; eauto.
        * (* deliver the response, then read on *)
          set (cn' := {| c_state := CReading; c_inbox := c_inbox cn; c_eof := c_eof cn; c_rerr := c_rerr cn; c_wfail := false;
                         c_queue := []; c_reqs := c_reqs cn; c_outs := c_outs cn ++ [r] |}).
          assert (Hi' : Inv (set_conns s (aupdate c (fun _ => cn') (conns s)))).
          { assert (P1 : forall x, In x (@nil (addr * @msg G)) -> fst x = c) by (intros x []).
            assert (P2 : served s + (if active (c_state cn) then 1 else 0) = served s + (if active (c_state cn') then 1 else 0)).
            { rewrite Hst. reflexivity. }
            pose proof (inv_conn_step s c cn cn' [] (served s) Hi Hl P1 P2) as Hres.
            cbv zeta in Hres. simpl in Hres. rewrite app_nil_r in Hres.
            eapply inv_ext; [| | | | | | apply Hres]; try reflexivity. lia. }
          apply (inv_conn_read _ c cn' Hi').
          -- simpl. rewrite alookup_aupdate_eq, Hl. reflexivity.
          -- reflexivity.
      + (* the coordinator finished this agent (QuitGame): close *)
        assert (Hcnt : naq c (aq s) = 0 /\ nh c (handlers s) = 0 /\ q' = []).
        { unfold tok, nq in Ht. rewrite Hl, Hq in Ht. simpl in Ht. destruct q'; [repeat split; try lia; reflexivity | simpl in Ht; lia]. }
        destruct Hcnt as (Hna & Hnh & ->).
        assert (Hact : active (c_state cn) = true) by (rewrite Hst; reflexivity).
        pose proof (nactive_pos c _ cn Hl Hact) as Hpos.
        intros [= <-]. unfold cleanup.
        assert (P1 : forall x, In x (@nil (addr * @msg G)) -> fst x = c) by (intros x []).
        assert (P2 : served s - 1 + (if active (c_state cn) then 1 else 0) =
                     served s + (if active (c_state (c_set_queue (c_set_state (c_set_queue cn []) CClosed) [])) then 1 else 0)).
        { rewrite Hst. simpl. rewrite (I_served s Hi). lia. }
        pose proof (inv_conn_step s c cn (c_set_queue (c_set_state (c_set_queue cn []) CClosed) []) [] (served s - 1) Hi Hl P1 P2) as Hres.
        cbv zeta in Hres. simpl in Hres. rewrite app_nil_r in Hres.
        eapply inv_ext; [| | | | | | apply Hres]; try reflexivity.
        { cbn [conns set_served set_conns set_aq]. rewrite aupdate_aupdate.
          apply (aupdate_at c (fun x => c_set_queue (c_set_state (c_set_queue x []) CClosed) []) _ cn Hl). }
        split; [reflexivity|]. split.
        * intros m Hin. exfalso. eapply naq0_notin; eauto.
        * intros h Hin Hadr. exfalso. eapply nh0_notin; eauto.
    - discriminate.
  Qed.
End InvConnRun.

Section InvExternal.
  Context {V W G : Type}.
  Notation state := (@state V W G).
  Notation conn := (@conn V G).
  Notation Inv := (@Inv V W G).

  Lemma naq_unknown (s : state) c : Inv s -> alookup c (conns s) = None -> naq c (aq s) = 0 /\ nh c (handlers s) = 0.
  Proof.
    intros Hi Hl. split.
    - destruct (naq c (aq s)) eqn:E; [reflexivity|]. exfalso.
      unfold naq in E. destruct (filter (fun x => N.eqb (fst x) c) (aq s)) as [|[k m] tl] eqn:Ef; [discriminate|].
      assert (Hin : In (k, m) (filter (fun x => N.eqb (fst x) c) (aq s))) by (rewrite Ef; left; reflexivity).
      apply filter_In in Hin as [Hin Hk]. simpl in Hk. apply N.eqb_eq in Hk. subst k.
      apply (I_known_aq s Hi c m Hin Hl).
    - destruct (nh c (handlers s)) eqn:E; [reflexivity|]. exfalso.
      unfold nh in E. destruct (filter (fun h => N.eqb (h_addr h) c) (handlers s)) as [|h tl] eqn:Ef; [discriminate|].
      assert (Hin : In h (filter (fun h => N.eqb (h_addr h) c) (handlers s))) by (rewrite Ef; left; reflexivity).
      apply filter_In in Hin as [Hin Hk]. apply N.eqb_eq in Hk.
      apply (I_known_h s Hi h Hin). rewrite Hk. exact Hl.
  Qed.

  Lemma inv_connect (s : state) c : Inv s -> alookup c (conns s) = None -> Inv (set_conns s (conns s ++ [(c, new_conn)])).
  Proof.
    intros Hi Hl. destruct (naq_unknown s c Hi Hl) as [Hq Hh].
    apply (inv_local s _ c Hi); simpl.
    - intros c' Hne. rewrite alookup_app. destruct (alookup c' (conns s)); [reflexivity|]. simpl.
      destruct (N.eqb c' c) eqn:E; [apply N.eqb_eq in E; congruence | reflexivity].
    - rewrite map_app. simpl. apply NoDup_app_one; [apply (I_conns s Hi) | apply alookup_none_notin, Hl].
    - intros c' Hne. split; reflexivity.
    - intros c' m Hin. right. exact Hin.
    - intros h' Hin. right. exists h'. auto.
    - apply (I_ids s Hi).
    - unfold nactive. rewrite filter_app, app_length. simpl. rewrite (I_served s Hi). unfold nactive. lia.
    - apply (I_agents s Hi).
    - apply (I_parked s Hi).
    - intros cn Hl'. rewrite alookup_app, Hl in Hl'. simpl in Hl'. rewrite N.eqb_refl in Hl'. injection Hl' as <-.
      simpl. unfold tok, nq. simpl. rewrite alookup_app, Hl. simpl. rewrite N.eqb_refl. simpl. lia.
    - intros _. rewrite alookup_app, Hl. simpl. rewrite N.eqb_refl. discriminate.
    - intros h Hin _. apply (I_nogarbage s Hi), Hin.
  Qed.
End InvExternal.
