"""Helpers to build task configurations and start the real coordinator on the driver."""
import copy
import json
import logging
import os
import tempfile
import yaml

BUILD = os.path.join(os.path.dirname(os.path.dirname(os.path.abspath(__file__))), "_build")

logging.disable(logging.CRITICAL)

EMPTY_PART = dict(known_networks=[], known_hosts=[], controlled_hosts=[], known_services={},
                  known_data={}, known_blocks={})


def base_config(scenario="scenario1_small", **env):
    cfg = {
        "coordinator": {"agents": {
            "Attacker": {
                "max_steps": 25,
                "goal": dict(copy.deepcopy(EMPTY_PART), description="Exfiltrate data to '213.47.23.195'",
                             is_any_part_of_goal_random=True,
                             known_data={"213.47.23.195": [["User1", "DataFromServer1"]]}),
                "start_position": dict(copy.deepcopy(EMPTY_PART), controlled_hosts=["213.47.23.195", "192.168.2.2"]),
            },
            "Defender": {
                "goal": dict(copy.deepcopy(EMPTY_PART), description="Block all attackers",
                             is_any_part_of_goal_random=False),
                "start_position": dict(copy.deepcopy(EMPTY_PART), controlled_hosts=["all_local"], blocked_ips={}),
            },
        }},
        "env": {
            "random_seed": 42, "scenario": scenario, "use_global_defender": False,
            "use_dynamic_addresses": False, "use_firewall": True, "save_trajectories": False,
            "rewards": {"success": 100, "step": -1, "fail": -10},
        },
    }
    cfg["env"].update(env)
    return cfg


def write_config(cfg, name=None):
    os.makedirs(BUILD, exist_ok=True)
    fd, path = tempfile.mkstemp(prefix=name or "conf_", suffix=".yaml", dir=BUILD)
    with os.fdopen(fd, "w") as f:
        yaml.safe_dump(cfg, f)
    return path


def start(cfg, seed=42, allowed_roles=("Attacker", "Defender", "Benign"), path=None):
    """Start the coordinator as the shipped entry point does (`NSGCoordinator(host, port, task_config)`): arguments that
    have their default value are NOT passed, so that the defaults of the constructors are what runs.
    path: use this configuration file (and keep it) instead of a temporary one."""
    from driver import Driver
    from AIDojoCoordinator.worlds.NSEGameCoordinator import NSGCoordinator
    kw = {}
    if tuple(allowed_roles) != ("Attacker", "Defender", "Benign"):
        kw["allowed_roles"] = list(allowed_roles)
    if seed != 42:
        kw["seed"] = seed
    keep = path is not None
    if path is None:
        path = write_config(cfg)
    try:
        drv = Driver(lambda: NSGCoordinator("127.0.0.1", 9000, path, **kw))
    finally:
        if not keep:
            os.unlink(path)
    return drv


def msg(action_type, **params):
    """JSON text of an action, built independently of the repo's encoder."""
    return json.dumps({"action_type": f"ActionType.{action_type}", "parameters": params})


def ip(s):
    return {"ip": s}


def join(name="a", role="Attacker"):
    return msg("JoinGame", agent_info={"name": name, "role": role})
