(* Facts about the view codec model (M1, views). *)
From stdpp Require Import gmap strings.
From Coq Require Import ZArith.
From NSG Require Import Model.Json Model.Ipv4Text Model.Codec Model.ViewCodec.
Open Scope string_scope.

Lemma mapM_fmap {A B} (f : B -> option A) (g : A -> B) (l : list A) :
  (forall x, x ∈ l -> f (g x) = Some x) -> mapM f (g <$> l) = Some l.
Proof.
  induction l as [|x tl IH]; intros H; [reflexivity|].
  rewrite fmap_cons. cbn [mapM].
  rewrite (H x) by set_solver. rewrite IH by (intros; apply H; set_solver). reflexivity.
Qed.

Lemma dec_enc_set {A} `{Countable A} (f : json -> option A) (g : A -> json) (s : gset A) :
  (forall x, x ∈ s -> f (g x) = Some x) -> dec_set f (Some (enc_set g s)) = Some s.
Proof.
  intros Hx. unfold dec_set, enc_set. rewrite mapM_fmap.
  - f_equal. apply list_to_set_elements_L.
  - intros x Hin. apply Hx. apply elem_of_elements. exact Hin.
Qed.

Lemma dec_enc_map {A} `{Countable A} (f : json -> option A) (g : A -> json) (m : gmap ip (gset A)) :
  keys_ok m -> (forall i s x, m !! i = Some s -> x ∈ s -> f (g x) = Some x) ->
  dec_map f (Some (enc_map g m)) = Some m.
Proof.
  intros Hk Hx. unfold dec_map, enc_map.
  assert (Hm : mapM (dec_entry f) ((fun kv => (fst kv, enc_set g (snd kv))) <$> map_to_list m) = Some (map_to_list m)).
  { apply (mapM_fmap (A := ip * gset A) (dec_entry f) (fun kv => (fst kv, enc_set g (snd kv)))). intros [i s] Hin.
    apply elem_of_map_to_list in Hin. unfold dec_entry. cbn [fst snd].
    rewrite (Hk i s Hin). rewrite (dec_enc_set f g s); [reflexivity|]. intros x Hxs. eapply Hx; eauto. }
  rewrite Hm. f_equal.
  rewrite <- (list_to_map_to_list m) at 2.
  apply list_to_map_proper.
  - rewrite fmap_reverse, reverse_Permutation. apply NoDup_fst_map_to_list.
  - apply reverse_Permutation.
Qed.

Lemma vdec_enc_ip i : ipv4_ok i = true -> vdec_ip (enc_ip i) = Some i.
Proof. intros H. simpl. rewrite H. reflexivity. Qed.
Lemma vdec_enc_net n : vdec_net (enc_net n) = Some n.
Proof. destruct n. reflexivity. Qed.
Lemma vdec_enc_svc s : vdec_svc (enc_svc s) = Some s.
Proof. destruct s as [[[n t] v] l]. reflexivity. Qed.
Lemma vdec_enc_data d : vdec_data (enc_data d) = Some d.
Proof. destruct d as [[[o i] sz] t]. reflexivity. Qed.

Opaque dec_set dec_map enc_set enc_map.
Theorem dec_enc_view_gen b v : view_ok v -> dec_view_gen b (enc_view v) = Some v.
Proof.
  intros (Hc & Hh & Hs & Hd & Hb & Hbs). destruct v as [c h s d n bl]. simpl in *.
  unfold dec_view_gen, enc_view.
  change (jget "known_networks" _) with (Some (enc_set enc_net n)).
  change (jget "known_hosts" _) with (Some (enc_set enc_ip h)).
  change (jget "controlled_hosts" _) with (Some (enc_set enc_ip c)).
  change (jget "known_services" _) with (Some (enc_map enc_svc s)).
  change (jget "known_data" _) with (Some (enc_map enc_data d)).
  change (jget "known_blocks" _) with (Some (enc_map enc_ip bl)).
  rewrite (dec_enc_set vdec_net enc_net n) by (intros; apply vdec_enc_net).
  rewrite (dec_enc_set vdec_ip enc_ip h) by (intros; apply vdec_enc_ip, Hh; assumption).
  rewrite (dec_enc_set vdec_ip enc_ip c) by (intros; apply vdec_enc_ip, Hc; assumption).
  rewrite (dec_enc_map vdec_svc enc_svc s) by (try assumption; intros; apply vdec_enc_svc).
  rewrite (dec_enc_map vdec_data enc_data d) by (try assumption; intros; apply vdec_enc_data).
  rewrite (dec_enc_map vdec_ip enc_ip bl) by (try assumption; intros i0 s0 x H1 H2; apply vdec_enc_ip; eapply Hbs; eauto).
  reflexivity.
Qed.

Transparent dec_set dec_map enc_set enc_map.

(* ---- the decoders do not depend on the order in which sets and dicts were written ---- *)
Lemma mapM_perm {A B} (f : B -> option A) l l' :
  l ≡ₚ l' -> match mapM f l, mapM f l' with
             | Some xs, Some xs' => xs ≡ₚ xs'
             | None, None => True
             | _, _ => False
             end.
Proof.
  induction 1 as [| x l l' Hp IH | x y l | l l' l'' H1 IH1 H2 IH2]; simpl.
  - reflexivity.
  - destruct (f x); [|exact I]. destruct (mapM f l), (mapM f l'); try tauto. constructor. exact IH.
  - destruct (f x), (f y); try exact I; destruct (mapM f l); try exact I. apply perm_swap.
  - destruct (mapM f l), (mapM f l'), (mapM f l''); try tauto. etrans; eauto.
Qed.

Theorem dec_set_perm {A} `{Countable A} (f : json -> option A) l l' :
  l ≡ₚ l' -> dec_set f (Some (JArr l)) = dec_set f (Some (JArr l')).
Proof.
  intros Hp. unfold dec_set. pose proof (mapM_perm f l l' Hp) as Hm.
  destruct (mapM f l), (mapM f l'); try tauto. f_equal. apply list_to_set_perm_L. exact Hm.
Qed.

Lemma mapM_fst {A} `{Countable A} (f : json -> option A) o kvs :
  mapM (dec_entry f) o = Some kvs -> kvs.*1 = o.*1.
Proof.
  revert kvs. induction o as [|[k j] tl IH]; cbn [mapM]; intros kvs.
  - intros [= <-]. reflexivity.
  - unfold dec_entry at 1. cbn [fst snd]. destruct (ipv4_ok k); [|discriminate].
    destruct (dec_set f (Some j)); [|discriminate]. destruct (mapM (dec_entry f) tl) as [r|]; [|discriminate].
    intros [= <-]. rewrite !fmap_cons. cbn [fst]. f_equal. apply IH. reflexivity.
Qed.

Theorem dec_map_perm {A} `{Countable A} (f : json -> option A) o o' :
  NoDup (o.*1) -> o ≡ₚ o' -> dec_map f (Some (JObj o)) = dec_map f (Some (JObj o')).
Proof.
  intros Hnd Hp. unfold dec_map. pose proof (mapM_perm (dec_entry f) o o' Hp) as Hm.
  destruct (mapM (dec_entry f) o) as [kvs|] eqn:E1, (mapM (dec_entry f) o') as [kvs'|] eqn:E2; try tauto.
  f_equal. apply list_to_map_proper.
  - rewrite fmap_reverse, reverse_Permutation. rewrite (mapM_fst f o kvs E1). exact Hnd.
  - rewrite !reverse_Permutation. exact Hm.
Qed.

(* ---- equality of views is extensional ---- *)
Theorem view_ext (v w : view) :
  v = w <->
  (forall i, i ∈ v_ctrl v <-> i ∈ v_ctrl w) /\ (forall i, i ∈ v_hosts v <-> i ∈ v_hosts w) /\
  (forall n, n ∈ v_nets v <-> n ∈ v_nets w) /\
  (forall h s, (exists S, v_svcs v !! h = Some S /\ s ∈ S) <-> (exists S, v_svcs w !! h = Some S /\ s ∈ S)) /\
  (forall h, is_Some (v_svcs v !! h) <-> is_Some (v_svcs w !! h)) /\
  (forall h d, (exists S, v_data v !! h = Some S /\ d ∈ S) <-> (exists S, v_data w !! h = Some S /\ d ∈ S)) /\
  (forall h, is_Some (v_data v !! h) <-> is_Some (v_data w !! h)) /\
  (forall h b, (exists S, v_blocks v !! h = Some S /\ b ∈ S) <-> (exists S, v_blocks w !! h = Some S /\ b ∈ S)) /\
  (forall h, is_Some (v_blocks v !! h) <-> is_Some (v_blocks w !! h)).
Proof.
  split; [intros ->; tauto|].
  intros (H1 & H2 & H3 & H4 & H4' & H5 & H5' & H6 & H6').
  assert (Hmap : forall A `{Countable A} (m m' : gmap ip (gset A)),
             (forall h s, (exists S, m !! h = Some S /\ s ∈ S) <-> (exists S, m' !! h = Some S /\ s ∈ S)) ->
             (forall h, is_Some (m !! h) <-> is_Some (m' !! h)) -> m = m').
  { intros A ? ? m m' Ha Hb. apply map_eq. intros h. specialize (Hb h).
    destruct (m !! h) as [S|] eqn:E, (m' !! h) as [S'|] eqn:E'.
    - f_equal. apply set_eq. intros x. specialize (Ha h x). rewrite E, E' in Ha. split; intros Hx.
      + destruct (proj1 Ha (ex_intro _ S (conj eq_refl Hx))) as (S0 & [= <-] & ?). assumption.
      + destruct (proj2 Ha (ex_intro _ S' (conj eq_refl Hx))) as (S0 & [= <-] & ?). assumption.
    - destruct Hb as [Hb _]. destruct (Hb (mk_is_Some _ _ eq_refl)) as [? ?]. discriminate.
    - destruct Hb as [_ Hb]. destruct (Hb (mk_is_Some _ _ eq_refl)) as [? ?]. discriminate.
    - reflexivity. }
  destruct v, w. simpl in *. f_equal; try (apply set_eq; assumption); apply Hmap; assumption.
Qed.
