(* C16, trajectory files: the only label that writes records is the reset task, and when it resets the game with
   save_trajectories on it appends exactly one record (name, role, the trajectory as it stands) per agent in the game, in
   the order of the agent table; with the switch off, or when the task finds no consensus, nothing is written. *)
From Coq Require Import ZArith NArith List Bool Arith Lia.
From NSG Require Import Model.Coord Proofs.CoordBase Proofs.CoordInv Proofs.CoordDirect.
Import ListNotations.

Section Files.
  Context {V W G : Type}.
  Variable wstep : W -> V -> G -> W * V.
  Variable wreset : W -> W.
  Variable winit : W -> role -> W * V.
  Variable goal : role -> V -> bool.
  Variable detect : list G -> G -> bool.
  Variable cfg : config.

  Notation state := (@state V W G).
  Notation agent := (@agent V G).
  Notation exec := (@exec V W G wstep wreset winit goal detect cfg).
  Notation h_start := (@h_start V W G wstep winit goal detect cfg).
  Notation h_wake := (@h_wake V W G wstep winit goal detect cfg).

  Definition record_of (x : addr * agent) := (a_name (snd x), a_role (snd x), a_traj (snd x)).

  Lemma reset_fold_files (l : list (addr * agent)) w done fl :
    snd (fold_left (@reset_one V W G winit cfg) l (w, done, fl)) = if save_traj cfg then fl ++ map record_of l else fl.
  Proof.
    revert w done fl. induction l as [|x tl IH]; intros w done fl; cbn [fold_left map].
    - destruct (save_traj cfg); [rewrite app_nil_r|]; reflexivity.
    - destruct (reset_one_effect winit cfg w done fl x) as (w1 & v & _ & ->). rewrite IH.
      destruct (save_traj cfg); [rewrite <- app_assoc; reflexivity | reflexivity].
  Qed.

  Theorem reset_files_exact (s s' : state) :
    @reset_run V W G wreset winit cfg s = Some s' ->
    ((match agents s with [] => false | _ => true end) && all_req (agents s)) = true ->
    files s' = if save_traj cfg then files s ++ map record_of (agents s) else files s.
  Proof.
    unfold reset_run. destruct (negb (ev_reset s)); [discriminate|]. intros H Hall. rewrite Hall in H. simpl in H.
    pose proof (reset_fold_files (agents s) (wreset (world s)) [] (files s)) as Hf.
    destruct (fold_left _ (agents s) (wreset (world s), [], files s)) as [[w' ags] fl]. simpl in Hf.
    injection H as <-. simpl. exact Hf.
  Qed.

  Lemma h_start_files (s : state) id c m : files (h_start s id c m) = files s.
  Proof.
    destruct m as [|info| |want|act valid]; unfold Coord.h_start.
    - reflexivity.
    - destruct (alookup c (agents s)); [reflexivity|]. destruct info as [[name [r|]]|]; try reflexivity.
      destruct (negb (allowed cfg r)); [reflexivity|]. destruct (winit (world s) r) as [w' v]. cbv zeta.
      destruct (Nat.eqb _ _); [reflexivity|]. destruct (ev_start _); reflexivity.
    - simpl. unfold remove_agent. destruct (alookup c (agents s)); [|reflexivity]. destruct (_ && _); destruct (all_ended _); reflexivity.
    - destruct (alookup c (agents s)); [|reflexivity]. cbv zeta. destruct (all_req _); reflexivity.
    - destruct (alookup c (agents s)) as [a|]; [|reflexivity]. destruct (negb valid); [reflexivity|]. destruct (a_ended a); [reflexivity|].
      destruct (wstep (world s) (a_view a) act) as [w' v']. cbv zeta.
      match goal with |- context [all_ended ?AGS] => set (ags := AGS) end.
      assert (Hg : forall (s2 : state) (b : bool), files s2 = files s ->
                files (if b then park s2 id (PRewards false act v') else @game_finish V W G s2 id c act v') = files s).
      { intros s2 b E. destruct b; [exact E|]. unfold game_finish. destruct (alookup c (agents s2)); exact E. }
      destruct (all_ended ags); apply Hg; reflexivity.
  Qed.

  Theorem files_frame (s s' : state) l : exec s l = Some s' -> l <> LRun TReset -> files s' = files s.
  Proof.
    intros He Hl. destruct l as [k|k ch|k|k|k|t]; cbn [Coord.exec] in He.
    - destruct (alookup k (conns s)); [discriminate|]. injection He as <-. reflexivity.
    - destruct (alookup k (conns s)) as [cn|]; [|discriminate]. destruct (c_inbox cn); [discriminate|].
      destruct (c_state cn); try discriminate; (destruct (c_eof cn); [discriminate|]; injection He as <-; reflexivity).
    - destruct (alookup k (conns s)); [|discriminate]. injection He as <-. reflexivity.
    - destruct (alookup k (conns s)); [|discriminate]. injection He as <-. reflexivity.
    - destruct (alookup k (conns s)); [|discriminate]. injection He as <-. reflexivity.
    - destruct t as [k| |id| |]; try congruence.
      + assert (Hcr : forall (t : state) cn, files (conn_read t k cn) = files t).
        { intros t cn. unfold conn_read, leave, cleanup. destruct (c_rerr cn); [reflexivity|].
          destruct (c_inbox cn) as [[m|]|]; try reflexivity. destruct (c_eof cn); reflexivity. }
        unfold conn_run in He. destruct (alookup k (conns s)) as [cn|]; [|discriminate].
        destruct (negb (conn_runnable cn)); [discriminate|].
        destruct (c_state cn).
        * destruct (Nat.leb (required cfg) (served s)); injection He as <-; [reflexivity | rewrite Hcr; reflexivity].
        * injection He as <-. rewrite Hcr. reflexivity.
        * destruct (c_queue cn) as [|[r|] q']; [discriminate| |].
          -- destruct (c_wfail cn); injection He as <-; [reflexivity | rewrite Hcr; reflexivity].
          -- injection He as <-. reflexivity.
        * discriminate.
      + unfold dispatch_run in He. destruct (aq s) as [|x q]; [discriminate|]. injection He as <-.
        assert (Hd : forall q (t : state), files (fold_left dispatch1 q t) = files t).
        { induction q0 as [|[k m] tl IH]; intros t; [reflexivity|]. cbn [fold_left]. rewrite IH. destruct m; reflexivity. }
        change (files (fold_left dispatch1 (x :: q) (set_aq s [])) = files s). rewrite Hd. reflexivity.
      + unfold handler_run in He. destruct (find (fun h => Nat.eqb (h_id h) id) (handlers s)) as [h|]; [|discriminate].
        unfold Coord.h_wake in He. destruct (h_pc h) as [m|rel v|rel act v'|rel want|rel want].
        * injection He as <-. apply h_start_files.
        * destruct rel; [|discriminate]. injection He as <-. reflexivity.
        * destruct rel; [|discriminate]. injection He as <-. unfold game_finish. destruct (alookup _ _); reflexivity.
        * destruct rel; [|discriminate]. destruct (ev_start s); injection He as <-; [|reflexivity].
          unfold reset_finish. destruct (alookup _ _); reflexivity.
        * destruct rel; [|discriminate]. injection He as <-. unfold reset_finish. destruct (alookup _ _); reflexivity.
      + unfold rewards_run in He. destruct (negb (ev_end s)); [discriminate|].
        destruct (negb (all_ended (agents s))); injection He as <-; reflexivity.
  Qed.
End Files.
