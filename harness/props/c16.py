"""C16: trajectories (coordinator model Model/Coord.v, trace-following correspondence, direct monitor)."""
import json
import check as CK
from props import coordcommon as CC

TRANSLATORS = ["enums", "defender", "dispatch"]
COQ_FILES = ["Props/C16.v", "Obl/DispatchOk.v", "Obl/EnumsOk.v"]


def long_session_probe(ctx):
    """Depth of history: three agents (one of each role), save_trajectories on, many short episodes in ONE coordinator. After every
    collective reset each agent's trajectory file must have grown by exactly one record - the episode just played (its actions) -
    and a requested trajectory must be that episode too.  (The sessions followed by the model have a handful of episodes.)"""
    import glob
    import os
    import shutil
    import sys
    import tempfile
    sys.path[:0] = [CK.HARNESS]
    import nsgenv
    episodes = 400 if ctx.tier == "thorough" else 130
    cfg = nsgenv.base_config("scenario1", save_trajectories=True, required_players=3)
    A = cfg["coordinator"]["agents"]["Attacker"]
    A["max_steps"] = 3
    A["goal"]["known_data"] = {}
    A["goal"]["known_hosts"] = ["1.1.1.1"]
    cfg["coordinator"]["agents"]["Defender"]["goal"]["known_data"] = {"1.1.1.1": [["x", "y"]]}
    import copy
    cfg["coordinator"]["agents"]["Benign"] = {
        "goal": dict(copy.deepcopy(nsgenv.EMPTY_PART), description="none", is_any_part_of_goal_random=False, known_data={"1.1.1.1": [["x", "y"]]}),
        "start_position": dict(copy.deepcopy(nsgenv.EMPTY_PART), controlled_hosts=["192.168.2.2"])}
    os.makedirs(nsgenv.BUILD, exist_ok=True)
    wd = tempfile.mkdtemp(prefix="c16long_", dir=nsgenv.BUILD)
    old = os.getcwd()
    os.chdir(wd)
    stats = {"episodes": 0, "records_checked": 0}
    replay = {"kind": "long_session", "episodes": episodes}
    d = None
    try:
        d = nsgenv.start(cfg)
        agents = [(("10.6.0.1", 1), "mallory", "Attacker"), (("10.6.0.2", 2), "dave", "Defender"), (("10.6.0.3", 3), "bob", "Benign")]
        for a, nm, role in agents:
            d.connect(a)
        d.settle()
        for a, nm, role in agents:
            d.send(a, nsgenv.join(nm, role)); d.settle()
        for a, nm, role in agents:
            d.new_output(a)
        fd = nsgenv.msg("FindData", source_host=nsgenv.ip("192.168.2.2"), target_host=nsgenv.ip("192.168.2.2"))
        for ep in range(1, episodes + 1):
            nact = {"mallory": ep % 3, "dave": (ep // 2) % 2, "bob": ep % 2}
            for a, nm, role in agents:
                for _ in range(nact[nm]):
                    d.send(a, fd); d.settle(); d.new_output(a)
            want = {nm: (ep + i) % 3 == 0 for i, (a, nm, role) in enumerate(agents)}
            for a, nm, role in agents:
                d.send(a, nsgenv.msg("ResetGame", request_trajectory=str(want[nm]))); d.settle()
            for a, nm, role in agents:
                outs = [json.loads(r[:-3].decode()) for r in d.new_output(a)]
                done = [o for o in outs if "RESET_DONE" in str(o.get("status"))]
                if len(done) != 1:
                    ctx.violations.append({"key": "collective reset not confirmed in a long session", "what": f"episode {ep}: {nm} got {len(done)} RESET_DONE answers; task errors {d.task_errors[:1]}", "replay": replay})
                    return
                lt = done[0]["message"].get("last_trajectory")
                if want[nm] and (lt is None or len(lt["trajectory"]["actions"]) != nact[nm]):
                    ctx.violations.append({"key": "requested trajectory is not the episode just played", "what": f"episode {ep}: {nm} played {nact[nm]} action(s), the handed-out trajectory has {None if lt is None else len(lt['trajectory']['actions'])}", "replay": replay})
                files = glob.glob(os.path.join(wd, "trajectories", f"*_{nm}_{role}.jsonl"))
                recs = [json.loads(l) for f in files for l in open(f) if l.strip()]
                stats["records_checked"] += 1
                if len(recs) != ep:
                    ctx.violations.append({"key": "a reset did not append exactly one record per agent", "what": f"after reset number {ep} the trajectory file of {nm} ({role}) holds {len(recs)} record(s) (every reset appends the episode just played by each agent in the game, nothing else writes)", "replay": replay})
                    return
                if len(recs[-1]["trajectory"]["actions"]) != nact[nm]:
                    ctx.violations.append({"key": "the appended record is not the episode just played", "what": f"episode {ep}: {nm} played {nact[nm]} action(s), the record appended has {len(recs[-1]['trajectory']['actions'])}", "replay": replay})
                    return
            stats["episodes"] = ep
        if d.task_errors:
            ctx.violations.append({"key": "task died in the long session", "what": str(d.task_errors[:1]), "replay": replay})
    except Exception as e:
        import traceback
        ctx.stage_errors.append(("long session probe", f"{type(e).__name__}: {e}\n{traceback.format_exc()[-600:]}"))
    finally:
        if d is not None:
            d.close()
        os.chdir(old)
        shutil.rmtree(wd, ignore_errors=True)
        ctx.coverage["long_session_probe"] = stats


def correspondence(ctx):
    n = 400 if ctx.tier == "thorough" else 52
    CC.run_sessions(ctx, "C16", n, lambda rng: dict(n_events=rng.choice([40,70]), burst=0.3, fault=0.05, bad=0.05, resets=0.25), lambda rng: dict(save=rng.random()<0.6, max_steps=rng.choice([1,2,3,5])), scale=True)
    long_session_probe(ctx)


def replay(ctx, payload):
    if payload.get("kind") == "long_session":
        c2 = CK.Ctx("C16", "quick", 1)
        long_session_probe(c2)
        for v in c2.violations:
            print(v["what"])
        if c2.violations:
            print("VIOLATION property=C16 replay=(this file)")
        return 1 if c2.violations else 0
    return CC.replay_session(ctx, "C16", payload)
